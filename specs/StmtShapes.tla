---------------------------- MODULE StmtShapes ----------------------------
(* A small grammar of well-formed Core / ORM statement SHAPES and what each of them MEANS over a tiny fixed database.
   Shared by StmtCache.tla (C02, C16, C17) and by the shape-table runs of those checks; other checks may add side
   assertions on the same enumeration (see notes/StmtCache.md).

   A shape is a record [k, f, c, w, d, o]; Name(s) = "k|f|c|w|d|o" is what travels to the driver (checks/stmt_common.py
   builds the real construct from it).  A valuation (V[p]) carries the literal values a program would put into the
   statement: scalars a, b (0 stands for Python None / SQL NULL), list l (IN), limit n, and for lambda statements the
   closure's column and table.

   Two INDEPENDENT descriptions of the bound parameters are given and TLC checks that they agree (BindsAgree):
     * Binds(s, v)      declarative: the values in the order the placeholders appear in the SQL text;
     * Extract/Order    mechanism (sql/cache_key.py + compiler.construct_params): the parameters extracted from the statement
                        in cache-key traversal order, and the compiled form's placeholder positions as indices into that list.
   Rows: the database is table a(id, x, y) with NRows rows per file (main, s1, s2: ids offset by 0/10/20) and table b(a_id, z);
   Ids(s, v, m) is the sorted sequence of first-column ids the statement returns under schema map m. *)
EXTENDS Integers, Sequences, FiniteSets, TLC, Json
\* NAMED DEVIATION (C17): sql/lambdas.py turns a closure variable holding None into a bound parameter before the comparison operator
\* sees it, so `lambda: t.c.x == v` with v = None renders `x = ?` with NULL bound (no row ever matches) where the statement built
\* directly from the value renders `x IS NULL`.  FALSE = what the property says (the ideal), TRUE = what the code does.
CONSTANT LamNoneBind

\* ------------------------------------------------------------------ data
NRows == 5
X == <<1, 2, 1, 3, 0>>          \* 0 = NULL
Y == <<2, 1, 1, 3, 1>>
BRows == << [aid |-> 1, z |-> 1], [aid |-> 1, z |-> 2], [aid |-> 2, z |-> 1] >>
Off(schema) == CASE schema = "main" -> 0 [] schema = "s1" -> 10 [] schema = "s2" -> 20

\* V[3] carries both "structural" values (None: `x = NULL` is written IS NULL; the empty IN list), so runs with NV = 3 have them
V == << [a |-> 1, b |-> 1, l |-> <<1>>,    n |-> 1, col |-> "x", tab |-> "a"],
        [a |-> 2, b |-> 2, l |-> <<1, 2>>, n |-> 2, col |-> "y", tab |-> "s1"],
        [a |-> 0, b |-> 3, l |-> <<>>,     n |-> 3, col |-> "x", tab |-> "a"],
        [a |-> 3, b |-> 1, l |-> <<3, 1>>, n |-> 2, col |-> "y", tab |-> "s1"] >>

\* ------------------------------------------------------------------ schema maps (C16)
MapNames == {"none", "s1s2", "n_s1", "ident", "both"}
HasNoneKey(m) == m \in {"n_s1", "both"}
\* effective schema of a table declared with `schema` ("main" = schema None) when executed under map m
Eff(schema, m) == CASE schema = "main" -> (IF HasNoneKey(m) THEN "s1" ELSE "main")
                    [] schema = "s1"   -> (IF m \in {"s1s2", "both"} THEN "s2" ELSE "s1")
                    [] OTHER -> schema

\* ------------------------------------------------------------------ grammar
Kinds == {"sel", "orm", "ins", "upd", "del", "lam", "ddl", "txt", "typ", "insm"}
Froms == {"a", "join", "outer", "s1", "xjoin"}
Crits == {"none", "eq", "in", "eqand", "orin"}
\* lchain3 / lchain4: lambda_stmt(l1) + l2 + l3 [+ l4] where ONLY the first link holds a structural closure value (the column), the later
\* links hold literals only (their own closure keys never change): the deeper links must still be looked up under the first link's key
LamKinds == {"lscalar", "llist", "lcol", "ltab", "lmulti", "lwhere", "lcrit", "lexpr", "lchain3", "lchain4"}
\* typed constructs (k = "typ"): c = the construct, o = the type; the types differ from Numeric(10) / String() in ONE constructor argument,
\* absent vs falsy (0, False) vs truthy
TypC == {"cast", "tcoerce", "literal", "bind"}
TypO == {"n10", "n10_0", "n10_2", "n10_f", "n10_d0", "s", "s0", "s5"}
Wraps == {"none", "subq", "cte", "union", "exists"}
Decos == {"none", "limit", "label", "distinct"}
Opts == {"none", "selectin", "joined", "defer", "undefer", "ret", "named", "pos"} \cup TypO
\* well-formed shapes, per statement kind
SelShapes == {s \in [k : {"sel"}, f : Froms, c : Crits, w : Wraps, d : Decos, o : {"none"}] :
                 (s.w = "union" => s.d \in {"none", "limit"}) /\ (s.w = "exists" => s.f \in {"a", "join", "outer"})}
OrmShapes == [k : {"orm"}, f : {"a", "join", "outer"}, c : Crits, w : {"none", "exists"}, d : {"none", "limit", "distinct"},
              o : {"none", "selectin", "joined", "defer", "undefer"}]        \* (undefer(A.y) differs from defer(A.y) in the loader STRATEGY only)
\* executemany INSERT .. RETURNING on the "insertmanyvalues" path whose VALUES holds a scalar subquery against the OTHER table:
\*   insert(dst).values(y = select(max(src.c.id)).scalar_subquery()).returning(dst.c.id, dst.c.y)   executed with two parameter sets {x: n}, {x: b};
\* f = the schema dst is declared in (src is declared in the other one), so a map translates the statement text AND the per-row VALUES fragment
InsmShapes == [k : {"insm"}, f : {"a", "s1"}, c : {"none"}, w : {"none"}, d : {"none"}, o : {"ret"}]
InsShapes == [k : {"ins"}, f : {"a", "s1"}, c : {"none"}, w : {"none"}, d : {"none"}, o : {"none", "ret"}]
UpdDelShapes == [k : {"upd", "del"}, f : {"a", "s1"}, c : Crits, w : {"none"}, d : {"none"}, o : {"none", "ret"}]
LamShapes == [k : {"lam"}, f : {"a"}, c : LamKinds, w : {"none"}, d : {"none"}, o : {"none"}]
\* CREATE TABLE d (...) with the table declared without schema / in s1  (DDL has no cache key; executed under a schema map for C16)
DdlShapes == [k : {"ddl"}, f : {"a", "s1"}, c : {"none"}, w : {"none"}, d : {"none"}, o : {"none"}]
\* TextualSelect(text("select id as q, x as r from a [where x = :a]"), [b.c.id, b.c.z], positional = (o = "pos")): the names in the text
\* match none of the given columns, so looking a column up in a row works iff the statement is positional
TxtShapes == [k : {"txt"}, f : {"a"}, c : {"none", "eq"}, w : {"none"}, d : {"none"}, o : {"named", "pos"}]
\* select(a.c.id, cast(a.c.x, T) | type_coerce(a.c.x, T) | literal(n, T)).where(a.c.y == :b)  /  select(a.c.id, a.c.x).where(a.c.y == bindparam(b, T))
TypShapes == [k : {"typ"}, f : {"a"}, c : TypC, w : {"none"}, d : {"none"}, o : TypO]
Shapes == SelShapes \cup OrmShapes \cup InsShapes \cup UpdDelShapes \cup LamShapes \cup DdlShapes \cup TxtShapes \cup TypShapes \cup InsmShapes
WF(s) == s \in Shapes
Name(s) == s.k \o "|" \o s.f \o "|" \o s.c \o "|" \o s.w \o "|" \o s.d \o "|" \o s.o
\* shapes that may be executed under a schema map: Core statements over a / s1.a only (b exists only unqualified)
SchemaCapable(s) == s.k \in {"sel", "ins", "upd", "del", "ddl", "insm"} /\ s.f \in {"a", "s1", "xjoin"} /\ s.w # "exists"
\* two different tables must not be translated onto the same one (the "same construct with translated names" would not exist)
MapOK(s, m) == m = "none" \/ (SchemaCapable(s) /\ ((s.f = "xjoin" \/ s.k = "insm") => Eff("main", m) # Eff("s1", m)))
UsesNoneSchema(s) == s.f # "s1" \/ s.k = "insm"          \* the statement mentions a table declared without schema
UsesS1Schema(s) == s.f \in {"s1", "xjoin"} \/ s.k = "insm"  \* ... a table declared in schema s1
Primary(s) == IF s.f = "s1" THEN "s1" ELSE "main"

\* ------------------------------------------------------------------ helpers
Range(q) == {q[i] : i \in 1..Len(q)}
RECURSIVE Rep(_, _)
Rep(x, n) == IF n <= 0 THEN <<>> ELSE <<x>> \o Rep(x, n - 1)
RECURSIVE Bag(_, _)
Bag(mult, i) == IF i > NRows THEN <<>> ELSE Rep(i, mult[i]) \o Bag(mult, i + 1)
Min(x, y) == IF x < y THEN x ELSE y
Max(x, y) == IF x > y THEN x ELSE y
RECURSIVE Flat(_)
Flat(q) == IF q = <<>> THEN <<>> ELSE Head(q) \o Flat(Tail(q))
Card(S) == Cardinality(S)

\* ------------------------------------------------------------------ structure-relevant part of a valuation
UsesEq(s) == s.c \in {"eq", "eqand", "orin", "lscalar", "lcol", "ltab", "lmulti", "lcrit", "lexpr", "lchain3", "lchain4"}
UsesList(s) == s.c \in {"in", "orin", "llist", "lwhere", "lchain4"}
\* `col == None` renders IS NULL: a different statement structure, hence a different cache key (insert VALUES keep a bind)
\* ("lexpr": the closure holds the finished criterion `a.c.x == v`, built OUTSIDE the lambda - a None there is an honest IS NULL)
Dev(s, v) == LamNoneBind /\ s.k = "lam" /\ UsesEq(s) /\ s.c # "lexpr" /\ v.a = 0          \* the named deviation applies to this execution
\* (insert VALUES and a textual `x = :a` keep the bind whatever the value)
Struct(s, v) == IF s.k \notin {"ins", "txt"} /\ UsesEq(s) /\ v.a = 0 /\ ~Dev(s, v) THEN "null" ELSE "val"
InLen(s, v) == IF UsesList(s) THEN Len(v.l) ELSE 0 - 1
\* closure values of a lambda that are not literals take part in the cache key
LamKey(s, v) == CASE s.c \in {"lcol", "lmulti", "lchain3", "lchain4"} -> v.col [] s.c = "ltab" -> v.tab [] OTHER -> ""

\* ------------------------------------------------------------------ rows
ColVal(col, i) == IF col = "x" THEN X[i] ELSE Y[i]
Sat(s, v, i) ==
   CASE Dev(s, v) \/ (s.k = "txt" /\ s.c = "eq" /\ v.a = 0) -> FALSE                      \* x = NULL is never true
     [] s.c = "none" -> TRUE
     [] s.c \in {"eq", "lscalar", "ltab", "lcrit", "lexpr"} -> X[i] = v.a
     [] s.c \in {"in", "llist"} -> X[i] # 0 /\ X[i] \in Range(v.l)
     [] s.c = "eqand" -> X[i] = v.a /\ Y[i] = v.b
     [] s.c = "orin" -> X[i] = v.a \/ Y[i] \in Range(v.l)
     [] s.c = "lcol" -> ColVal(v.col, i) = v.a
     [] s.c = "lmulti" -> ColVal(v.col, i) = v.a /\ Y[i] # v.b
     [] s.c = "lwhere" -> Y[i] = v.b /\ X[i] # 0 /\ X[i] \in Range(v.l)
     [] s.c = "lchain3" -> ColVal(v.col, i) = v.a /\ Y[i] # v.b
     [] s.c = "lchain4" -> ColVal(v.col, i) = v.a /\ Y[i] # v.b /\ i \in Range(v.l)
     [] s.c \in TypC -> Y[i] = v.b
NB(i) == Card({j \in 1..Len(BRows) : BRows[j].aid = i})
FMult(f, i) == CASE f \in {"a", "s1"} -> 1 [] f = "join" -> NB(i) [] f = "outer" -> Max(1, NB(i))
                 [] f = "xjoin" -> IF X[i] = 0 THEN 0 ELSE Card({j \in 1..NRows : X[j] = X[i]})
ExistsOK(s, v, i) == s.w = "exists" => \E j \in 1..Len(BRows) : BRows[j].aid = i /\ BRows[j].z = v.b
Mult(s, v) == [i \in 1..NRows |->
   IF s.w = "union" THEN (IF (Sat(s, v, i) /\ FMult(s.f, i) > 0) \/ Y[i] = v.b THEN 1 ELSE 0)
   ELSE IF Sat(s, v, i) /\ ExistsOK(s, v, i) THEN (IF s.d = "distinct" /\ s.f # "xjoin" THEN Min(1, FMult(s.f, i)) ELSE FMult(s.f, i)) ELSE 0]
HasLimit(s) == s.d = "limit" \/ s.c \in {"lchain3", "lchain4"}
Limited(s, v, q) == IF HasLimit(s) THEN SubSeq(q, 1, Min(v.n, Len(q))) ELSE q
RECURSIVE Dedupe(_)
Dedupe(q) == IF Len(q) <= 1 THEN q ELSE IF q[1] = q[2] THEN Dedupe(Tail(q)) ELSE <<q[1]>> \o Dedupe(Tail(q))
\* table the rows come from (lambda "ltab": the closure's table)
RowSchema(s, v) == IF s.c = "ltab" /\ v.tab # "a" THEN v.tab ELSE Primary(s)
Shift(q, off) == [i \in 1..Len(q) |-> q[i] + off]
SelIds(s, v) == LET q == Limited(s, v, Bag(Mult(s, v), 1)) IN IF s.o = "joined" THEN Dedupe(q) ELSE q
Matching(s, v) == Bag([i \in 1..NRows |-> IF Sat(s, v, i) THEN 1 ELSE 0], 1)
Ids(s, v, m) ==
   LET off == Off(Eff(RowSchema(s, v), m)) IN
   CASE s.k \in {"sel", "orm", "lam", "txt", "typ"} -> Shift(SelIds(s, v), off)
     [] s.k = "ddl" -> <<off>>                                     \* observable of CREATE TABLE: the file in which table d exists afterwards
     [] s.k = "ins" -> IF s.o = "ret" THEN <<NRows + 1 + off>> ELSE <<>>
     [] s.k = "insm" -> <<NRows + 1 + off, NRows + 2 + off>>            \* two rows inserted into dst
     [] OTHER -> IF s.o = "ret" THEN Shift(Matching(s, v), off) ELSE <<>>
\* second column of the cross-schema join: ids of the partner rows (from the s1-declared table)
HasIds2(s) == (s.k = "sel" /\ s.f = "xjoin" /\ s.w = "none" /\ s.d # "limit") \/ s.k = "insm"
Ids2(s, v, m) ==
   IF s.k = "insm"      \* second RETURNING column: the value the scalar subquery read = max(id) of the file src is translated to
   THEN LET mx == NRows + Off(Eff(IF s.f = "s1" THEN "main" ELSE "s1", m)) IN <<mx, mx>>
   ELSE IF HasIds2(s)
   THEN LET q == Bag([j \in 1..NRows |-> Card({i \in 1..NRows : Sat(s, v, i) /\ X[i] # 0 /\ X[i] = X[j]})], 1)
        IN Shift(q, Off(Eff("s1", m)))
   ELSE <<>>
\* rowcount of DML without RETURNING (-1: not observed)
RowCount(s, v) == CASE s.k = "ins" /\ s.o = "none" -> 1
                    [] s.k \in {"upd", "del"} /\ s.o = "none" -> Len(Matching(s, v))
                    [] OTHER -> 0 - 1

\* ------------------------------------------------------------------ bound parameters, declarative: order of appearance in the SQL
NullBind == 0 - 1                                       \* a bound NULL
EqB(v) == IF v.a = 0 THEN <<>> ELSE <<v.a>>
CritB(s, v) == CASE Dev(s, v) -> IF s.c \in {"lmulti", "lchain3"} THEN <<NullBind, v.b>> ELSE IF s.c = "lchain4" THEN <<NullBind, v.b>> \o v.l ELSE <<NullBind>>
                 [] s.k = "txt" /\ s.c = "eq" -> IF v.a = 0 THEN <<NullBind>> ELSE <<v.a>>
                 [] s.c = "none" -> <<>> [] s.c = "eq" -> EqB(v) [] s.c = "in" -> v.l
                 [] s.c = "eqand" -> EqB(v) \o <<v.b>> [] s.c = "orin" -> EqB(v) \o v.l
                 [] s.c \in {"lscalar", "ltab", "lcol", "lcrit", "lexpr"} -> EqB(v)
                 [] s.c = "llist" -> v.l
                 [] s.c = "lmulti" -> EqB(v) \o <<v.b>>
                 [] s.c = "lwhere" -> <<v.b>> \o v.l
                 [] s.c = "lchain3" -> EqB(v) \o <<v.b>>
                 [] s.c = "lchain4" -> EqB(v) \o <<v.b>> \o v.l
                 [] s.c = "literal" -> <<v.n, v.b>>
                 [] s.c \in {"cast", "tcoerce", "bind"} -> <<v.b>>
LimitB(s, v) == IF HasLimit(s) THEN <<v.n, 0>> ELSE <<>>       \* SQLite renders LIMIT ? OFFSET ? with a generated 0
Binds(s, v) ==
   CASE s.k = "ins" -> <<v.a, v.b>>                               \* VALUES (?, ?): None stays a bound NULL (0)
     [] s.k = "insm" -> <<v.n, v.b>>                              \* VALUES (?, (SELECT ..)), (?, (SELECT ..)): one x per parameter set
     [] s.k = "ddl" -> <<>>
     [] s.k = "upd" -> <<v.b>> \o CritB(s, v)                     \* SET y=? WHERE ...
     [] s.k = "del" -> CritB(s, v)
     [] OTHER -> CritB(s, v) \o (IF s.w = "exists" THEN <<v.b>> ELSE <<>>) \o (IF s.w = "union" THEN <<v.b>> ELSE <<>>) \o LimitB(s, v)

\* ------------------------------------------------------------------ bound parameters, mechanism
\* parameters of the statement in cache-key traversal order; each element is a sequence (an expanding IN list is ONE parameter)
EqX(v) == IF v.a = 0 THEN <<>> ELSE << <<v.a>> >>
CritX(s, v) == CASE Dev(s, v) -> IF s.c \in {"lmulti", "lchain3"} THEN << <<NullBind>>, <<v.b>> >>
                                  ELSE IF s.c = "lchain4" THEN << <<NullBind>>, <<v.b>>, v.l >> ELSE << <<NullBind>> >>
                 [] s.k = "txt" /\ s.c = "eq" -> IF v.a = 0 THEN << <<NullBind>> >> ELSE << <<v.a>> >>
                 [] s.c = "none" -> <<>> [] s.c = "eq" -> EqX(v) [] s.c = "in" -> << v.l >>
                 [] s.c = "eqand" -> EqX(v) \o << <<v.b>> >> [] s.c = "orin" -> EqX(v) \o << v.l >>
                 [] s.c \in {"lscalar", "ltab", "lcol", "lcrit", "lexpr"} -> EqX(v)
                 [] s.c = "llist" -> << v.l >>
                 [] s.c = "lmulti" -> EqX(v) \o << <<v.b>> >>
                 [] s.c = "lwhere" -> << <<v.b>>, v.l >>
                 [] s.c = "lchain3" -> EqX(v) \o << <<v.b>> >>
                 [] s.c = "lchain4" -> EqX(v) \o << <<v.b>>, v.l >>
                 [] s.c = "literal" -> << <<v.n>>, <<v.b>> >>
                 [] s.c \in {"cast", "tcoerce", "bind"} -> << <<v.b>> >>
Extract(s, v) ==
   CASE s.k = "ins" -> << <<v.a>>, <<v.b>> >>
     [] s.k = "insm" -> << <<v.n>>, <<v.b>> >>                     \* (the parameter sets of the executemany call)
     [] s.k = "ddl" -> <<>>
     [] s.k = "upd" -> CritX(s, v) \o << <<v.b>> >>                \* Update._traverse_internals: _where_criteria before _values
     [] s.k = "del" -> CritX(s, v)
     [] OTHER -> CritX(s, v) \o (IF s.w \in {"exists", "union"} THEN << <<v.b>> >> ELSE <<>>) \o (IF HasLimit(s) THEN << <<v.n>> >> ELSE <<>>)
\* placeholder positions of the compiled form, as indices into the extracted list (0 = a value generated by the compiler);
\* depends on the statement's structure only (st = Struct), never on values
NEq(s, st) == IF UsesEq(s) /\ st = "val" THEN 1 ELSE 0
NCrit(s, st) == CASE s.c = "none" -> 0 [] s.c \in {"eqand", "orin", "lmulti", "lchain3"} -> NEq(s, st) + 1 [] s.c \in {"lwhere", "literal"} -> 2
                  [] s.c = "lchain4" -> NEq(s, st) + 2 [] s.c \in {"cast", "tcoerce", "bind"} -> 1
                  [] s.c \in {"in", "llist"} -> 1 [] OTHER -> NEq(s, st)
Order(s, st) ==
   CASE s.k \in {"ins", "insm"} -> <<1, 2>>
     [] s.k = "ddl" -> <<>>
     [] s.k = "upd" -> <<NCrit(s, st) + 1>> \o [i \in 1..NCrit(s, st) |-> i]
     [] s.k = "del" -> [i \in 1..NCrit(s, st) |-> i]
     [] OTHER -> LET n == NCrit(s, st) + (IF s.w \in {"exists", "union"} THEN 1 ELSE 0) + (IF HasLimit(s) THEN 1 ELSE 0)
                 IN [i \in 1..n |-> i] \o (IF HasLimit(s) THEN <<0>> ELSE <<>>)
\* compiler.construct_params(extracted_parameters = ex) on a compiled form with positions ord
Construct(ord, ex) == Flat([i \in 1..Len(ord) |-> IF ord[i] = 0 THEN <<0>> ELSE ex[ord[i]]])
BindsAgree(s, v) == Construct(Order(s, Struct(s, v)), Extract(s, v)) = Binds(s, v)

\* secondary statement of selectinload: SELECT ... FROM b WHERE b.a_id IN (<ids of the loaded A rows>); none if no A was loaded
Secondary(s, v) == IF s.k = "orm" /\ s.o = "selectin" /\ SelIds(s, v) # <<>> THEN << Dedupe(SelIds(s, v)) >> ELSE <<>>

\* ------------------------------------------------------------------ everything the property talks about, as a function of (shape, values, map) ONLY
\* sql: executions with equal `sql` must emit the same SQL text
SqlClass(s, v, m) == [sh |-> Name(s), st |-> Struct(s, v), lk |-> LamKey(s, v), n |-> InLen(s, v),
                      e0 |-> IF UsesNoneSchema(s) /\ ~(s.c = "ltab" /\ v.tab # "a") THEN Eff("main", m) ELSE "-",
                      e1 |-> IF UsesS1Schema(s) THEN Eff("s1", m) ELSE IF s.c = "ltab" /\ v.tab # "a" THEN v.tab ELSE "-"]
\* looking up a row value by the column object given to the statement (C02: part of what "the same result rows" means)
RowLookup(s, v) == IF s.k # "txt" \/ SelIds(s, v) = <<>> THEN "-" ELSE IF s.o = "pos" THEN "ok" ELSE "NoSuchColumnError"
\* class of the values in the second column after the type's result processing (SQLite: no native decimal; "decN" = Decimal with N places)
TypedValue(s, v) ==
   IF s.k # "typ" \/ ~\E i \in 1..NRows : Sat(s, v, i) /\ (s.c = "literal" \/ X[i] # 0) THEN "-"
   ELSE CASE s.c = "bind" -> "int"
          [] s.o = "n10" -> "dec10" [] s.o \in {"n10_0", "n10_d0"} -> "dec0" [] s.o = "n10_2" -> "dec2"
          [] s.o = "n10_f" -> IF s.c = "literal" THEN "float" ELSE "int"
          [] OTHER -> IF s.c = "cast" THEN "str" ELSE "int"
F(s, v, m) == [sql |-> SqlClass(s, v, m), lk |-> RowLookup(s, v), tv |-> TypedValue(s, v), binds |-> Binds(s, v), ids |-> Ids(s, v, m), ids2 |-> Ids2(s, v, m), c2 |-> HasIds2(s), rc |-> RowCount(s, v),
               sec |-> Secondary(s, v), dev |-> Dev(s, v)]

=============================================================================
