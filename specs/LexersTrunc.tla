---------------------------- MODULE LexersTrunc ----------------------------
(* C21: generated and truncated names are bounded, deterministic and unique.

   Names are sequences of one-character strings.  Three parts, selected by Mode:

   "ddl"    naming conventions + IdentifierPreparer._truncate_and_render_maxlen_name.  A case is (template, lengths of the
            table / column / referred-table / constraint names, the dialect's three limits max_identifier_length /
            max_index_name_length / max_constraint_name_length, explicit?).  Index names are bounded by the index limit, constraint
            names by the constraint limit, each falling back to the identifier limit (IndexLimit, ConstraintLimit).  Expand(case) is the name the
            convention produces; Render gives  ok(name) | trunc(prefix)  [the implementation appends "_" + 4 hex digits of a
            hash: an uninterpreted 5-character suffix here]  | error (an explicitly given name that is too long is refused).
            Invariants: DdlBounded (rendered length <= max), DdlFaithful (not truncated unless too long; the kept prefix is a
            prefix of the name; exactly the convention-generated names are truncated, explicit ones are refused).
   "stmt"   SQLCompiler._truncated_identifier + _anonymous_label.apply_map(prefix_anon_map) as a MACHINE: the compiler asks for
            the names of the elements of one statement one after the other (labels of the columns clause, anonymous aliases,
            anonymous bind parameters), state = [index (next number per derived name), amap (anonymous key -> name), counter
            (next truncation counter per identifier class), memo ((class, key) -> name)].  Invariants at every step:
            Bounded (every name <= label_length), Distinct (distinct elements of one class have distinct names),
            KeptWhenShort; action property Stable (a name once given never changes; counters only grow).
   "trace"  (code -> spec) names recorded from real compilations of larger statements: Bounded / Distinct on them.     *)
EXTENDS Integers, Sequences, FiniteSets, TLC, Json, IOUtils
CONSTANTS Mode,
          MaxIdLens,     \* ddl: dialect length limits, one integer per configuration:  max_identifier_length * 1000000
                         \*      + max_index_name_length * 1000 + max_constraint_name_length   (0 = not set: falls back)
          NameLens,      \* ddl: lengths of table / column names
          LabelLens,     \* stmt: label_length values
          MaxItems       \* stmt: items per statement

ToSet(q) == {q[i] : i \in 1..Len(q)}
Rep(ch, k) == [i \in 1..k |-> ch]
Chars(s) == s            \* names are written as tuples of characters below
RECURSIVE Join(_, _)
Join(parts, sep) == IF Len(parts) = 0 THEN <<>> ELSE IF Len(parts) = 1 THEN parts[1] ELSE parts[1] \o sep \o Join(Tail(parts), sep)
Min2(a, b) == IF a < b THEN a ELSE b
Max2(a, b) == IF a > b THEN a ELSE b
IsPrefix(p, s) == Len(p) <= Len(s) /\ SubSeq(s, 1, Len(p)) = p

\* ================================================================ DDL names
Templates == {"ix", "uq", "uqN", "uq_N", "ck", "fk", "pk", "ixlabel"}
U == <<"_">>
\* the default-ish conventions used by the binding:
\*   ix  ix_%(table_name)s_%(column_0_name)s        uq  uq_%(table_name)s_%(column_0_name)s
\*   uqN uq_%(table_name)s_%(column_0N_name)s       uq_N uq_%(table_name)s_%(column_0_N_name)s
\*   ck  ck_%(table_name)s_%(constraint_name)s      fk  fk_%(table_name)s_%(column_0_name)s_%(referred_table_name)s
\*   pk  pk_%(table_name)s                          ixlabel  ix_%(column_0_label)s
TName(c) == Rep("t", c.lt)
CName(c, i) == Rep("c", c.lc) \o (IF i = 1 THEN <<>> ELSE <<"x">>)          \* second column: same prefix, one character more
RName(c) == Rep("r", c.lr)
KName(c) == Rep("k", c.lr)
Expand(c) ==
  CASE c.tmpl = "ix" -> <<"i", "x">> \o U \o TName(c) \o U \o CName(c, 1)
    [] c.tmpl = "uq" -> <<"u", "q">> \o U \o TName(c) \o U \o CName(c, 1)
    [] c.tmpl = "uqN" -> <<"u", "q">> \o U \o TName(c) \o U \o CName(c, 1) \o CName(c, 2)
    [] c.tmpl = "uq_N" -> <<"u", "q">> \o U \o TName(c) \o U \o CName(c, 1) \o U \o CName(c, 2)
    [] c.tmpl = "ck" -> <<"c", "k">> \o U \o TName(c) \o U \o KName(c)
    [] c.tmpl = "fk" -> <<"f", "k">> \o U \o TName(c) \o U \o CName(c, 1) \o U \o RName(c)
    [] c.tmpl = "pk" -> <<"p", "k">> \o U \o TName(c)
    [] c.tmpl = "ixlabel" -> <<"i", "x">> \o U \o TName(c) \o U \o CName(c, 1)
    [] c.tmpl \in {"explicit", "explicituq"} -> Rep("e", c.lt)
HashLen == 5              \* "_" + 4 hex digits
\* Python's name[0:k]: a negative k counts from the end
PyPrefix(name, k) == IF k >= 0 THEN SubSeq(name, 1, Min2(k, Len(name))) ELSE SubSeq(name, 1, Max2(Len(name) + k, 0))
\* _truncate_and_render_maxlen_name
Render(name, generated, max) ==
  IF Len(name) <= max THEN [kind |-> "ok", text |-> name]
  ELSE IF generated THEN [kind |-> "trunc", text |-> PyPrefix(name, max - 8)]
  ELSE [kind |-> "error", text |-> <<>>]
RenderedLen(r) == Len(r.text) + (IF r.kind = "trunc" THEN HashLen ELSE 0)
\* the three limits of a dialect: identifiers in general, index names, constraint names
IdMax(c) == c.max \div 1000000
IxMax(c) == (c.max \div 1000) % 1000
CkMax(c) == c.max % 1000
\* DECLARATIVE: an index name is bounded by the index limit, a constraint name by the constraint limit, each falling back to the
\* identifier limit when it is not set - and by nothing else
IndexLimit(c) == IF IxMax(c) = 0 THEN IdMax(c) ELSE IxMax(c)
ConstraintLimit(c) == IF CkMax(c) = 0 THEN IdMax(c) ELSE CkMax(c)
IndexTemplates == {"ix", "ixlabel", "explicit"}                 \* "explicit" is an Index with a given name, "explicituq" a UniqueConstraint
Explicit(c) == c.tmpl \in {"explicit", "explicituq"}
LimitOf(c) == IF c.tmpl \in IndexTemplates THEN IndexLimit(c) ELSE ConstraintLimit(c)
DdlCases == [tmpl : Templates \ {"ck", "fk"}, lt : NameLens, lc : NameLens, lr : {1}, max : MaxIdLens]
            \cup [tmpl : {"ck", "fk"}, lt : NameLens, lc : NameLens, lr : {1, 9}, max : MaxIdLens]
            \cup [tmpl : {"explicit", "explicituq"}, lt : NameLens, lc : {1}, lr : {1}, max : MaxIdLens]

\* ================================================================ statement names: the machine
\* a key is a sequence of segments: [lit |-> chars] or [id |-> element id, derived |-> chars]   (name % anon_map)
Lit(s) == [lit |-> s]
Anon(i, d) == [id |-> i, derived |-> d]
IsAnon(seg) == "id" \in DOMAIN seg
Digit(n) == <<"0","1","2","3","4","5","6","7","8","9","a","b","c","d","e","f">>[n + 1]
RECURSIVE Num(_, _)
Num(n, base) == IF n < base THEN <<Digit(n)>> ELSE Num(n \div base, base) \o <<Digit(n % base)>>
Dec(n) == Num(n, 10)
Hex(n) == Num(n, 16)

EmptySt == [index |-> <<>>, amap |-> <<>>, counter |-> <<>>, memo |-> <<>>]     \* association lists (sequences of pairs)
Lookup(al, k) == LET S == {i \in 1..Len(al) : al[i][1] = k} IN IF S = {} THEN <<>> ELSE <<al[CHOOSE i \in S : TRUE][2]>>
Put(al, k, v) == IF \E i \in 1..Len(al) : al[i][1] = k THEN [i \in 1..Len(al) |-> IF al[i][1] = k THEN <<k, v>> ELSE al[i]]
                 ELSE Append(al, <<k, v>>)
\* prefix_anon_map.__missing__: value = derived_N, N the running index of that derived name
RECURSIVE ApplyMap(_, _)
ApplyMap(key, st) ==          \* -> [st, name]
  IF key = <<>> THEN [st |-> st, name |-> <<>>]
  ELSE LET seg == Head(key) IN
       IF ~IsAnon(seg)
       THEN LET r == ApplyMap(Tail(key), st) IN [st |-> r.st, name |-> seg.lit \o r.name]
       ELSE LET k == <<seg.id, seg.derived>>
                hit == Lookup(st.amap, k) IN
            IF hit # <<>>
            THEN LET r == ApplyMap(Tail(key), st) IN [st |-> r.st, name |-> hit[1] \o r.name]
            ELSE LET idx == Lookup(st.index, seg.derived)
                     n == IF idx = <<>> THEN 1 ELSE idx[1]
                     v == seg.derived \o U \o Dec(n)
                     st2 == [st EXCEPT !.index = Put(@, seg.derived, n + 1), !.amap = Put(@, k, v)]
                     r == ApplyMap(Tail(key), st2) IN
                 [st |-> r.st, name |-> v \o r.name]
\* SQLCompiler._truncated_identifier(ident_class, name)
Truncated(cls, key, st, L) ==   \* -> [st, name]
  LET m == Lookup(st.memo, <<cls, key>>) IN
  IF m # <<>> THEN [st |-> st, name |-> m[1].name, anon |-> m[1].anon]
  ELSE LET a == ApplyMap(key, st)
           cnt == LET c == Lookup(a.st.counter, cls) IN IF c = <<>> THEN 1 ELSE c[1]
           long == Len(a.name) > L - 6
           nm == IF long THEN SubSeq(a.name, 1, Max2(L - 6, 0)) \o U \o Hex(cnt) ELSE a.name
           st2 == IF long THEN [a.st EXCEPT !.counter = Put(@, cls, cnt + 1)] ELSE a.st IN
       [st |-> [st2 EXCEPT !.memo = Put(@, <<cls, key>>, [name |-> nm, anon |-> a.name])], name |-> nm, anon |-> a.name]

\* ---- statements: items of the columns clause, then WHERE criteria; the requests the compiler makes, in its traversal order
\*   col   T.C                 label  T_C                                    (table-qualified label style)
\*   acol  A.C  (A = T.alias()) label  %(A T)s_C ; alias  %(A T)s
\*   expr  (T.C + 1).label(None)  label  %(e anon)s ; bind  %(b C)s
\*   whr   T.C == v               bind   %(b C)s
\*   awhr  A.C == v               alias  %(A T)s ; bind  %(b C)s
TblName == <<"t", "t">>
ColNames == {<<"c">>, Rep("c", 3), Rep("c", 7), Rep("c", 7) \o <<"x">>}
ItemKinds == {"col", "acol", "expr", "whr", "awhr"}
Items == [k : ItemKinds, c : ColNames]
AliasKey == <<Anon(100, TblName)>>
ReqsOf(item, pos) ==
  CASE item.k = "col" -> << [cls |-> "colident", key |-> <<Lit(TblName \o U \o item.c)>>, e |-> <<pos, "label">>] >>
    [] item.k = "acol" -> << [cls |-> "colident", key |-> <<Anon(100, TblName), Lit(U \o item.c)>>, e |-> <<pos, "label">>],
                             [cls |-> "alias", key |-> AliasKey, e |-> <<0, "alias">>] >>
    [] item.k = "expr" -> << [cls |-> "colident", key |-> <<Anon(200 + pos, <<"a", "n", "o", "n">>)>>, e |-> <<pos, "label">>],
                             [cls |-> "bindparam", key |-> <<Anon(300 + pos, item.c)>>, e |-> <<pos, "bind">>] >>
    [] item.k = "whr" -> << [cls |-> "bindparam", key |-> <<Anon(300 + pos, item.c)>>, e |-> <<pos, "bind">>] >>
    [] item.k = "awhr" -> << [cls |-> "alias", key |-> AliasKey, e |-> <<0, "alias">>],
                             [cls |-> "bindparam", key |-> <<Anon(300 + pos, item.c)>>, e |-> <<pos, "bind">>] >>
SelectKinds == {"col", "acol", "expr"}
\* the columns clause is compiled first, then FROM (the alias, if any column or criterion uses it), then WHERE
RECURSIVE ReqSeq(_, _, _)
ReqSeq(items, pos, sel) == IF pos > Len(items) THEN <<>>
                           ELSE (IF (items[pos].k \in SelectKinds) = sel THEN ReqsOf(items[pos], pos) ELSE <<>>) \o ReqSeq(items, pos + 1, sel)
UsesAlias(items) == \E i \in 1..Len(items) : items[i].k \in {"acol", "awhr"}
Requests(items) == ReqSeq(items, 1, TRUE)
                   \o (IF UsesAlias(items) THEN << [cls |-> "alias", key |-> AliasKey, e |-> <<0, "alias">>] >> ELSE <<>>)
                   \o ReqSeq(items, 1, FALSE)
\* a statement never selects the same column twice under the same label (the columns clause de-duplicates those differently)
WellFormed(items) == \A i, j \in 1..Len(items) : (i < j /\ items[i].k = items[j].k /\ items[i].k \in {"col", "acol"}) => items[i].c # items[j].c
Statements == {s \in UNION {[1..n -> Items] : n \in 1..MaxItems} : WellFormed(s)}

\* ---- names recorded from the implementation (mode "trace"):  [L, names : seq of [cls, name (chars), e (element id)]]
ASSUME TLCSet(1, IF Mode = "trace" THEN ndJsonDeserialize(IOEnv.TRUNC_TRACES) ELSE <<>>)
Traces == TLCGet(1)

VARIABLES case,      \* ddl: the case record; stmt: [L, items]; trace: index
          reqs,      \* stmt: requests still to be made
          st,        \* stmt: compiler state
          named,     \* stmt/trace: sequence of [cls, key / e, name]
          out
vars == <<case, reqs, st, named, out>>

\* truncate_and_render_index_name / truncate_and_render_constraint_name pick the limit of their kind
DdlOut(c) == LET name == Expand(c) r == Render(name, ~Explicit(c), LimitOf(c)) IN
             [tmpl |-> c.tmpl, lt |-> c.lt, lc |-> c.lc, lr |-> c.lr, max |-> IdMax(c), ixmax |-> IxMax(c), ckmax |-> CkMax(c),
              eff |-> LimitOf(c), name |-> name, kind |-> r.kind, text |-> r.text]
Init == \/ /\ Mode = "ddl" /\ case \in DdlCases /\ reqs = <<>> /\ st = EmptySt /\ named = <<>>
           /\ out = DdlOut(case) /\ PrintT(ToJson(out))
        \/ /\ Mode = "stmt" /\ case \in [L : LabelLens, items : Statements]
           /\ reqs = Requests(case.items) /\ st = EmptySt /\ named = <<>> /\ out = <<>>
        \/ /\ Mode = "trace" /\ case \in 1..Len(Traces) /\ reqs = <<>> /\ st = EmptySt
           /\ named = Traces[case].names /\ out = <<>>
\* one request of the compiler
Step == /\ Mode = "stmt" /\ reqs # <<>>
        /\ LET r == Head(reqs) t == Truncated(r.cls, r.key, st, case.L) IN
           /\ st' = t.st
           /\ named' = Append(named, [cls |-> r.cls, key |-> r.key, e |-> r.e, name |-> t.name, anon |-> t.anon])
           /\ reqs' = Tail(reqs)
           /\ out' = IF Tail(reqs) = <<>> THEN [L |-> case.L, items |-> case.items, names |-> named'] ELSE out
           /\ (Tail(reqs) = <<>> => PrintT(ToJson(out')))
        /\ UNCHANGED case
Next == Step \/ (reqs = <<>> /\ UNCHANGED vars)

\* ================================================================ properties
DdlBounded == Mode = "ddl" => (out.kind # "error" =>
   LET len == RenderedLen([kind |-> out.kind, text |-> out.text]) IN
   /\ (case.tmpl \in IndexTemplates => len <= IndexLimit(case))
   /\ (case.tmpl \notin IndexTemplates => len <= ConstraintLimit(case))
   /\ len <= Max2(IdMax(case), LimitOf(case)))
DdlFaithful == Mode = "ddl" =>
   /\ (out.kind = "ok" => out.text = out.name /\ Len(out.name) <= LimitOf(case))
   /\ (out.kind = "trunc" => Len(out.name) > LimitOf(case) /\ ~Explicit(case) /\ IsPrefix(out.text, out.name)
                             /\ Len(out.text) = LimitOf(case) - 8)
   /\ (out.kind = "error" => Explicit(case) /\ Len(out.name) > LimitOf(case))
LOf == IF Mode = "stmt" THEN case.L ELSE IF Mode = "trace" THEN Traces[case].L ELSE 0
Bounded == Mode \in {"stmt", "trace"} => \A i \in 1..Len(named) : Len(named[i].name) <= LOf
\* distinct elements (the same element asked twice counts once) of one class never share a name
Distinct == Mode \in {"stmt", "trace"} =>
   \A i, j \in 1..Len(named) : (named[i].cls = named[j].cls /\ named[i].e # named[j].e) => named[i].name # named[j].name
\* a name that fits is used as it is (stmt mode: the record carries the untruncated name)
KeptWhenShort == Mode = "stmt" => \A i \in 1..Len(named) :
   IF Len(named[i].anon) <= case.L - 6 THEN named[i].name = named[i].anon
   ELSE /\ IsPrefix(SubSeq(named[i].anon, 1, Max2(case.L - 6, 0)), named[i].name)
        /\ Len(named[i].name) > Max2(case.L - 6, 0) + 1
\* the same element always gets the same name
SameElementSameName == Mode \in {"stmt", "trace"} =>
   \A i, j \in 1..Len(named) : (named[i].cls = named[j].cls /\ named[i].e = named[j].e) => named[i].name = named[j].name
Stable == [][Mode = "stmt" =>
             /\ \A i \in 1..Len(st.memo) : i <= Len(st'.memo) /\ st'.memo[i] = st.memo[i]
             /\ \A i \in 1..Len(st.amap) : i <= Len(st'.amap) /\ st'.amap[i] = st.amap[i]
             /\ \A i \in 1..Len(st.counter) : st'.counter[i][2] >= st.counter[i][2]]_vars
=============================================================================
