---------------------------- MODULE StmtCache ----------------------------
(* C02 / C16 / C17: the compiled-statement cache of an Engine as a state machine over statement shapes (StmtShapes.tla).

   Mechanism layer (sql/elements.py _compile_w_cache, util/_collections.py LRUCache, compiler.construct_params,
   IdentifierPreparer._render_schema_translates, sql/lambdas.py):
     * cache: sequence of entries in recency order (last = most recently used).  An entry remembers the execution that POPULATED it:
       shape, valuation, schema map.  key = <<shape, structure of the values, non-literal closure values, "a schema map is in effect">>.
     * LRUCache is "squishy": a new key is appended; when len > Cap + Cap/2 the Cap most recently used entries are kept.
     * a hit re-uses the populating execution's compiled form: its structure, its placeholder positions, its schema placeholders;
       the bound VALUES are looked up, position by position, in the parameters extracted from the statement being executed now;
       IN lists and schema placeholders are expanded at execution time from the current list / the current map.
     * a compiled form made under a map without a None key has no placeholder for schema-less tables (and vice versa): executing it
       with the other flavour of map raises the documented InvalidRequestError.
   Abstract layer: F(shape, values, map) of StmtShapes - what the statement means, defined without any reference to a cache.
   TLC checks that what the mechanism delivers equals F in every reachable cache state (Transparent), that equal keys imply equal
   SQL and placeholder layout (KeysSound), that a hit never delivers the populating execution's values (NoStaleValues), the LRU
   bounds, and that the only cache-state dependent outcome is the documented schema-map flavour error.
   `Faulty` switches in one of three classic design errors; the check runs them to show the invariants are not vacuous. *)
EXTENDS StmtShapes
CONSTANTS Group,        \* set of shape names executed against one shared cache
          NV,           \* valuations 1..NV
          Maps,         \* subset of MapNames
          Modes,        \* subset of {"cached", "nocache"}
          Cap,          \* query_cache_size
          MaxDepth,
          Faulty        \* "none" | "stale_params" | "key_ignores_struct" | "key_ignores_mapflag"
VARIABLES st, last
vars == <<st, last>>

ByName == [n \in Group |-> CHOOSE s \in Shapes : Name(s) = n]
G == {ByName[n] : n \in Group}
Flag(m) == m # "none"
KeyOf(s, v, m) == << Name(s), IF Faulty = "key_ignores_struct" THEN "val" ELSE Struct(s, v), LamKey(s, v),
                     IF Faulty = "key_ignores_mapflag" THEN FALSE ELSE Flag(m) >>
SecKey(m) == << "selectin", "val", "", IF Faulty = "key_ignores_mapflag" THEN FALSE ELSE Flag(m) >>
Find(cache, k) == IF \E i \in 1..Len(cache) : cache[i].key = k THEN CHOOSE i \in 1..Len(cache) : cache[i].key = k ELSE 0
Touch(cache, i) == SubSeq(cache, 1, i - 1) \o SubSeq(cache, i + 1, Len(cache)) \o <<cache[i]>>
Insert(cache, e) == LET c1 == Append(cache, e) IN
                    IF 2 * Len(c1) > 3 * Cap THEN SubSeq(c1, Len(c1) - Cap + 1, Len(c1)) ELSE c1
\* get-or-compile: -> [cache, e (entry used), hit]
Lookup(cache, k, sh, p, m) ==
   LET i == Find(cache, k) IN
   IF i # 0 THEN [cache |-> Touch(cache, i), e |-> cache[i], hit |-> "hit"]
   ELSE LET e == [key |-> k, sh |-> sh, p |-> p, m |-> m] IN [cache |-> Insert(cache, e), e |-> e, hit |-> "miss"]

\* ---------- executing through a compiled form e (made for shape e.sh with values V[e.p] under map e.m) ----------
\* _render_schema_translates
MapErr(e, s, m) == \/ (Flag(m) /\ HasNoneKey(m) /\ ~HasNoneKey(e.m))
                   \/ (Flag(e.m) /\ HasNoneKey(e.m) /\ ~HasNoneKey(m) /\ UsesNoneSchema(ByName[e.sh]))
RenderSql(e, s, v, m) ==
   LET es == ByName[e.sh] IN
   [sh |-> e.sh, st |-> Struct(es, V[e.p]), lk |-> LamKey(es, V[e.p]),
    n |-> InLen(s, v),                                               \* post-compile: the current list
    e0 |-> IF ~UsesNoneSchema(es) \/ (es.c = "ltab" /\ V[e.p].tab # "a") THEN "-"
           ELSE IF Flag(e.m) /\ HasNoneKey(e.m) THEN Eff("main", m) ELSE "main",       \* placeholder / literal
    e1 |-> IF UsesS1Schema(es) THEN (IF Flag(e.m) THEN Eff("s1", m) ELSE "s1")
           ELSE IF es.c = "ltab" /\ V[e.p].tab # "a" THEN V[e.p].tab ELSE "-"]
RenderBinds(e, s, v) ==
   LET es == ByName[e.sh] IN
   Construct(Order(es, Struct(es, V[e.p])), IF Faulty = "stale_params" THEN Extract(es, V[e.p]) ELSE Extract(s, v))
\* what the database answers: the meaning of the statement IF the SQL and values sent are the right ones, else "something else"
Through(e, s, p, m) ==
   LET v == V[p]
       f == F(s, v, m)
       sql == RenderSql(e, s, v, m)
       b == RenderBinds(e, s, v)
       right == sql = f.sql /\ b = f.binds
   IN [sql |-> sql, binds |-> b, lk |-> IF Name(s) = e.sh THEN f.lk ELSE "other statement's result map",
       tv |-> IF Name(s) = e.sh THEN f.tv ELSE "other statement's result processors",
       ids |-> IF right THEN f.ids ELSE <<0 - 1>>, ids2 |-> IF right THEN f.ids2 ELSE <<0 - 1>>,
       c2 |-> f.c2, rc |-> IF right THEN f.rc ELSE 0 - 2, sec |-> f.sec, dev |-> f.dev]

\* ---------- operations: st -> [st, ret] ----------
R(s, r) == [st |-> s, ret |-> r]
DoExec(s0, s, p, m, mode) ==
   LET v == V[p] IN
   IF s.k = "ddl"          \* DDL has no cache key: compiled for every execution, the cache is not consulted
   THEN LET e == [key |-> <<>>, sh |-> Name(s), p |-> p, m |-> m]
        IN R(s0, [out |-> "ok", hit |-> "nokey", hit2 |-> "-", obs |-> Through(e, s, p, m)])
   ELSE IF mode = "nocache"
   THEN LET e == [key |-> <<>>, sh |-> Name(s), p |-> p, m |-> m]      \* compiled for this execution, thrown away
        IN R(s0, [out |-> "ok", hit |-> "off", hit2 |-> IF F(s, v, m).sec # <<>> THEN "off" ELSE "-", obs |-> Through(e, s, p, m)])
   ELSE LET l1 == Lookup(s0.cache, KeyOf(s, v, m), Name(s), p, m)
            err == l1.hit = "hit" /\ MapErr(l1.e, s, m)
            obs == Through(l1.e, s, p, m)
            two == ~err /\ obs.sec # <<>>
            l2 == IF two THEN Lookup(l1.cache, SecKey(m), "selectin", p, m) ELSE l1
        IN R([s0 EXCEPT !.cache = l2.cache],
             [out |-> IF err THEN "InvalidRequestError" ELSE "ok", hit |-> l1.hit, hit2 |-> IF two THEN l2.hit ELSE "-",
              obs |-> IF err THEN [sql |-> "-", lk |-> "-", tv |-> "-", binds |-> <<>>, ids |-> <<>>, ids2 |-> <<>>, c2 |-> FALSE, rc |-> 0 - 1, sec |-> <<>>, dev |-> FALSE] ELSE obs])
DoClear(s0) == R([s0 EXCEPT !.cache = <<>>], [out |-> "ok", hit |-> "-", hit2 |-> "-", obs |-> "-"])

\* ---------- actions ----------
Step(name, sh, p, m, mode, res) == st' = res.st /\ last' = [a |-> name, sh |-> sh, p |-> p, m |-> m, mode |-> mode, ret |-> res.ret]
Exec == \E s \in G, p \in 1..NV, m \in Maps, mode \in Modes :
           MapOK(s, m) /\ Step("Exec", Name(s), p, m, mode, DoExec(st, s, p, m, mode))
Clear == st.cache # <<>> /\ Step("Clear", "-", 0, "none", "-", DoClear(st))
Init == st = [cache |-> <<>>] /\ last = [a |-> "init", sh |-> "-", p |-> 0, m |-> "none", mode |-> "-", ret |-> "-"]
Next == Exec \/ Clear
Spec == Init /\ [][Next]_vars
View == st
Depth == TLCGet("level") <= MaxDepth
\* edge dump: states are printed compactly (an entry is identified by the execution that populated it: its key is a function of that),
\* and the expected observation is printed as outcome + hit flags only: Transparent (checked by TLC in the same run) says the rest IS
\* F(shape, values, map), which the driver takes from the shape table printed by TableInit.
Compact(s0) == [i \in 1..Len(s0.cache) |-> <<s0.cache[i].sh, s0.cache[i].p, s0.cache[i].m>>]
Slim(l) == [a |-> l.a, sh |-> l.sh, p |-> l.p, m |-> l.m, mode |-> l.mode,
            out |-> IF l.a = "Exec" THEN l.ret.out ELSE "ok", hit |-> IF l.a = "Exec" THEN l.ret.hit ELSE "-", hit2 |-> IF l.a = "Exec" THEN l.ret.hit2 ELSE "-"]
Emit == PrintT(ToJson([from |-> Compact(st), act |-> Slim(last'), to |-> Compact(st')]))
InitEmit == Init /\ PrintT(ToJson([init |-> Compact(st)]))

\* ---------- properties ----------
IsExec == last.a = "Exec"
LS == ByName[last.sh]
\* C02 clause 1 / C16 / C17: SQL, bound values, rows are those of F - whatever the cache holds and whichever mode is used
Transparent == (IsExec /\ last.ret.out = "ok") =>
                  LET f == F(LS, V[last.p], last.m) o == last.ret.obs IN
                  o.sql = f.sql /\ o.binds = f.binds /\ o.ids = f.ids /\ o.ids2 = f.ids2 /\ o.rc = f.rc /\ o.lk = f.lk /\ o.tv = f.tv
\* C02 clause 3: a cached compilation receives the values of the statement being executed, never those of the populating one
NoStaleValues == (IsExec /\ last.ret.out = "ok" /\ last.ret.hit = "hit") => last.ret.obs.binds = Binds(LS, V[last.p])
\* C02 clause 2: statements with equal keys compile to the same SQL (up to the post-compile parts) and the same placeholder layout
PreSql(s, v) == [SqlClass(s, v, "none") EXCEPT !.n = 0]
KeysSound == \A i \in 1..Len(st.cache) : st.cache[i].sh # "selectin" =>
                \A s \in G, p \in 1..NV, m \in Maps :
                   (MapOK(s, m) /\ KeyOf(s, V[p], m) = st.cache[i].key) =>
                      LET es == ByName[st.cache[i].sh] ep == V[st.cache[i].p] IN
                      PreSql(s, V[p]) = PreSql(es, ep) /\ Order(s, Struct(s, V[p])) = Order(es, Struct(es, ep))
                      /\ Flag(m) = Flag(st.cache[i].m)
\* LRU mechanism: keys are unique, size bounded by capacity * 1.5
LruSane == 2 * Len(st.cache) <= 3 * Cap /\ \A i, j \in 1..Len(st.cache) : i # j => st.cache[i].key # st.cache[j].key
\* the only outcome that depends on the cache state is the documented inconsistent-None-key error, and only on a hit
OnlyDocumentedError == (IsExec /\ last.ret.out # "ok") =>
                          (last.mode = "cached" /\ last.ret.hit = "hit" /\ last.m # "none")
NoErrorWithoutMaps == (IsExec /\ last.m = "none") => last.ret.out = "ok"
\* executions that bypass the cache leave it alone; a miss makes the key present; a hit makes it most recent
CacheMoves == [][ /\ (last'.a = "Exec" /\ last'.mode = "nocache") => st'.cache = st.cache
                  /\ (last'.a = "Exec" /\ last'.ret.hit = "nokey") => st'.cache = st.cache
                  /\ (last'.a = "Exec" /\ last'.mode = "cached" /\ last'.ret.hit2 = "-" /\ last'.ret.hit # "nokey") =>
                        (st'.cache # <<>> /\ st'.cache[Len(st'.cache)].key = KeyOf(ByName[last'.sh], V[last'.p], last'.m))
                  /\ (last'.a = "Exec" /\ last'.ret.hit = "hit") => Find(st.cache, KeyOf(ByName[last'.sh], V[last'.p], last'.m)) # 0
                  /\ (last'.a = "Clear") => st'.cache = <<>> ]_vars

\* ---------- shape-table run: one initial state per well-formed shape (function-transcription pattern) ----------
CONSTANTS TableKinds,     \* kinds enumerated by TableInit
          TableSchemaOnly \* TRUE: only shapes that can run under a schema map (C16)
TableCase(s, p, m) == [f |-> F(s, V[p], m), ex |-> Extract(s, V[p]), ord |-> Order(s, Struct(s, V[p])),
                       key |-> <<Struct(s, V[p]), LamKey(s, V[p])>>]
TableInit == /\ \E s \in {x \in Shapes : x.k \in TableKinds /\ (TableSchemaOnly => SchemaCapable(x))} :
                  /\ st = [cache |-> <<>>, cur |-> s]
                  /\ PrintT(ToJson([name |-> Name(s), schema |-> SchemaCapable(s), vals |-> SubSeq(V, 1, NV),
                                    cases |-> [p \in 1..NV |-> [m \in {mm \in Maps : MapOK(s, mm)} |-> TableCase(s, p, m)]]]))
             /\ last = [a |-> "init", sh |-> "-", p |-> 0, m |-> "none", mode |-> "-", ret |-> "-"]
TableNext == UNCHANGED vars
Cur == st.cur
TableBindsAgree == \A p \in 1..NV : BindsAgree(Cur, V[p])
TableIdsSorted == \A p \in 1..NV : \A m \in {mm \in Maps : MapOK(Cur, mm)} :
                     LET q == Ids(Cur, V[p], m) IN \A i \in 1..Len(q) - 1 : q[i] <= q[i + 1]
\* the key is fine enough: equal (structure, closure key) => equal SQL up to the post-compile parts
TableKeyFine == \A p, q \in 1..NV : (Struct(Cur, V[p]) = Struct(Cur, V[q]) /\ LamKey(Cur, V[p]) = LamKey(Cur, V[q]))
                   => PreSql(Cur, V[p]) = PreSql(Cur, V[q])
\* a schema map only moves rows between files, it never changes which rows (C16: "operates on those schemas")
TableMapOnlyShifts == \A p \in 1..NV : \A m \in {mm \in Maps : MapOK(Cur, mm)} :
                         LET q == Ids(Cur, V[p], m) q0 == Ids(Cur, V[p], "none")
                             d == Off(Eff(RowSchema(Cur, V[p]), m)) - Off(RowSchema(Cur, V[p]))
                         IN Len(q) = Len(q0) /\ \A i \in 1..Len(q) : q[i] = q0[i] + d
=============================================================================
