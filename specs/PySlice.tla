---------------------------- MODULE PySlice ----------------------------
(* CPython list slice semantics (PySlice_AdjustIndices / slice.indices, list_subscript,
   list_ass_subscript), transcribed as pure operators (DESIGN Appendix D: checked with TLC and
   calibrated against the builtin `list` on all 27 440 cases of the design bound).
   None is encoded as the constant NoneV (outside every index range used).
   This module has no variables: PyCollections.tla EXTENDS it and enumerates the argument space
   (INIT InitSlice) checking the declarative laws SliceLaws below. *)
EXTENDS Integers, Sequences, FiniteSets
NoneV == 99
Min(a, b) == IF a < b THEN a ELSE b
Max(a, b) == IF a > b THEN a ELSE b
\* slice(start, stop, step).indices(len) -> <<start, stop, step>>   (step = 0 is a ValueError: never enumerated)
Indices(start, stop, step, len) ==
  LET st == IF step = NoneV THEN 1 ELSE step
      lower == IF st < 0 THEN -1 ELSE 0
      upper == IF st < 0 THEN len - 1 ELSE len
      s == IF start = NoneV THEN (IF st < 0 THEN upper ELSE lower)
           ELSE IF start < 0 THEN Max(start + len, lower) ELSE Min(start, upper)
      e == IF stop = NoneV THEN (IF st < 0 THEN lower ELSE upper)
           ELSE IF stop < 0 THEN Max(stop + len, lower) ELSE Min(stop, upper)
  IN <<s, e, st>>
\* 0-based positions selected by range(s, e, st), in iteration order
RECURSIVE RangeSeq(_, _, _)
RangeSeq(s, e, st) == IF (st > 0 /\ s >= e) \/ (st < 0 /\ s <= e) THEN <<>> ELSE <<s>> \o RangeSeq(s + st, e, st)
SlicePos(l, start, stop, step) == LET ix == Indices(start, stop, step, Len(l)) IN RangeSeq(ix[1], ix[2], ix[3])
GetSlice(l, start, stop, step) ==
  LET r == SlicePos(l, start, stop, step) IN [i \in 1..Len(r) |-> l[r[i] + 1]]
\* l[start:stop:step] = v   -> [ok, val]; ok = FALSE is ValueError (extended slice of a different size)
SetSlice(l, start, stop, step, v) ==
  LET ix == Indices(start, stop, step, Len(l)) IN
  IF ix[3] = 1 THEN
     LET s == ix[1] e == Max(ix[2], ix[1]) IN [ok |-> TRUE, val |-> SubSeq(l, 1, s) \o v \o SubSeq(l, e + 1, Len(l))]
  ELSE LET r == RangeSeq(ix[1], ix[2], ix[3]) IN
     IF Len(r) # Len(v) THEN [ok |-> FALSE, val |-> l]
     ELSE [ok |-> TRUE, val |-> [i \in 1..Len(l) |-> IF \E k \in 1..Len(r) : r[k] + 1 = i
                                                     THEN v[CHOOSE k \in 1..Len(r) : r[k] + 1 = i] ELSE l[i]]]
\* del l[start:stop:step]
DelSlice(l, start, stop, step) ==
  LET r == SlicePos(l, start, stop, step)
      gone == {r[k] + 1 : k \in 1..Len(r)}
      keep == SelectSeq([i \in 1..Len(l) |-> i], LAMBDA i : i \notin gone)
  IN [i \in 1..Len(keep) |-> l[keep[i]]]
\* ---------------------------------------------------------------- declarative laws (what "a slice" means)
\* stated without the clamping arithmetic: a position p (0-based) is selected iff it lies in the half-open
\* interval walked from the (virtual, unclamped) start towards stop in steps of `step`.
Norm(i, n) == IF i < 0 THEN i + n ELSE i
Selected(p, start, stop, step, n) ==
  LET st == IF step = NoneV THEN 1 ELSE step IN
  IF st > 0 THEN LET s == IF start = NoneV THEN 0 ELSE Max(Norm(start, n), 0)
                     e == IF stop = NoneV THEN n ELSE Min(Norm(stop, n), n)
                 IN p >= s /\ p < e /\ (p - s) % st = 0
  ELSE LET s == IF start = NoneV THEN n - 1 ELSE Min(Norm(start, n), n - 1)
           e == IF stop = NoneV THEN -1 ELSE Max(Norm(stop, n), -1)
       IN p <= s /\ p > e /\ (s - p) % (0 - st) = 0
SliceLaws(l, start, stop, step, v) ==
  LET n == Len(l)
      r == SlicePos(l, start, stop, step)
      st == IF step = NoneV THEN 1 ELSE step
      g == GetSlice(l, start, stop, step)
      d == DelSlice(l, start, stop, step)
      s == SetSlice(l, start, stop, step, v)
  IN /\ \A p \in 0..(n - 1) : Selected(p, start, stop, step, n) <=> \E k \in 1..Len(r) : r[k] = p
     /\ \A k \in 1..Len(r) : r[k] \in 0..(n - 1)
     /\ \A k \in 1..(Len(r) - 1) : (st > 0 => r[k] < r[k + 1]) /\ (st < 0 => r[k] > r[k + 1])
     /\ Len(g) = Len(r) /\ Len(d) = n - Len(r)
     \* deleting keeps exactly the unselected elements, in order
     /\ d = SelectSeq(l, LAMBDA x : \A k \in 1..Len(r) : l[r[k] + 1] # x)   \* (elements are distinct in the enumeration)
     \* extended-slice assignment: ValueError iff sizes differ, otherwise same length and the selected positions
     \* read back as v, everything else untouched
     /\ (st # 1) => /\ s.ok = (Len(v) = Len(r))
                    /\ ~s.ok => s.val = l
                    /\ s.ok => /\ Len(s.val) = n
                               /\ GetSlice(s.val, start, stop, step) = v
                               /\ \A p \in 0..(n - 1) : ~Selected(p, start, stop, step, n) => s.val[p + 1] = l[p + 1]
     \* plain slice assignment: never fails; prefix and suffix around the selected window survive, v in between
     /\ (st = 1) => /\ s.ok
                    /\ Len(s.val) = n - Len(r) + Len(v)
                    /\ LET ix == Indices(start, stop, step, n) IN
                       /\ SubSeq(s.val, 1, ix[1]) = SubSeq(l, 1, ix[1])
                       /\ SubSeq(s.val, ix[1] + 1, ix[1] + Len(v)) = v
                       /\ SubSeq(s.val, ix[1] + Len(v) + 1, Len(s.val)) = SubSeq(l, ix[1] + Len(r) + 1, n)
=============================================================================
