---------------------------- MODULE PoolReset ----------------------------
(* C24: what a pooled DBAPI connection carries from one checkout to the next.
   One pooled DBAPI connection (QueuePool size 1 / StaticPool / SingletonThreadPool reuse it, NullPool replaces it),
   a sequence of users that check it out either as a Connection ("conn") or as a raw pool connection ("raw"), do
   anything (begin, write, commit, rollback, change the isolation level / AUTOCOMMIT through execution options,
   run a failing statement, nothing), and give it back by close() or by dropping every reference (garbage collection).
   Mechanism transcribed from engine/base.py Connection.close (root.close + _close_special(transaction_reset=True) or
   fairy.close), pool/base.py _finalize_fairy / _ConnectionFairy._reset (reset_on_return rollback | commit | None) and
   _ConnectionRecord.checkin (finalize_callback -> DefaultDialect._reset_characteristics).
   Database side = pysqlite legacy transaction control: a DML statement opens a transaction unless the connection is in
   driver-level autocommit (isolation_level None). *)
EXTENDS Integers, Sequences, FiniteSets, TLC, Json
CONSTANTS Rors,       \* subset of {"rollback", "commit", "none"}   (pool_reset_on_return); st.ror is fixed per behaviour
          Kinds,      \* subset of {"queue", "null", "static", "singleton"}          ; st.kind is fixed per behaviour
          MaxRows, MaxCheckouts, MaxDepth
VARIABLES st, last
vars == <<st, last>>
InitSt(kind, ror) == [kind |-> kind, ror |-> ror, held |-> "idle",      \* what the current user holds: "idle" (nobody) | "conn" | "raw"
           root |-> FALSE,       \* the Connection has an (auto)begun RootTransaction
           failed |-> FALSE,     \* ... whose commit() failed with a non-disconnect error: inactive but still attached; the
                                 \* database transaction is still open
           txn |-> FALSE,        \* DBAPI-level transaction open on the pooled connection
           dirty |-> {},         \* uncommitted rows of that transaction
           committed |-> {},     \* rows other connections see
           iso |-> "default",    \* "default" | "ru" (READ UNCOMMITTED) | "ac" (AUTOCOMMIT)
           fin |-> FALSE,        \* a characteristics-reset finalizer is registered on the connection record
           cid |-> 0,            \* id of the pooled DBAPI connection (NullPool: a new one per checkout)
           nrow |-> 0, nco |-> 0]
R(s, r) == [st |-> s, ret |-> r]
\* ---- database primitives ----
DbCommit(s) == [s EXCEPT !.committed = @ \cup s.dirty, !.dirty = {}, !.txn = FALSE]
DbRollback(s) == [s EXCEPT !.dirty = {}, !.txn = FALSE]
DbWrite(s, k) == IF s.iso = "ac" THEN [s EXCEPT !.committed = @ \cup {k}] ELSE [s EXCEPT !.dirty = @ \cup {k}, !.txn = TRUE]
\* ---- pool return path ----
\* _ConnectionFairy._reset(transaction_was_reset)
Reset(s, wasReset) ==
   IF s.ror = "rollback" THEN (IF wasReset THEN s ELSE DbRollback(s))
   ELSE IF s.ror = "commit" THEN DbCommit(s)
   ELSE s
\* _ConnectionRecord.checkin: finalize callbacks restore the connection characteristics
Finalize(s) == IF s.fin THEN [s EXCEPT !.iso = "default", !.fin = FALSE] ELSE s
\* NullPool closes the DBAPI connection after the reset: whatever was left on it is gone (sqlite rolls back on close)
Return(s, wasReset) == LET s1 == [Finalize(Reset(s, wasReset)) EXCEPT !.held = "idle", !.root = FALSE]
                       IN IF s.kind = "null" THEN [DbRollback(s1) EXCEPT !.iso = "default", !.failed = FALSE] ELSE [s1 EXCEPT !.failed = FALSE]
\* ---- operations ----
DoCheckout(s, mode) ==
   LET s1 == IF s.kind = "null" \/ s.cid = 0
             THEN [s EXCEPT !.cid = @ + 1, !.txn = FALSE, !.dirty = {}, !.iso = "default", !.fin = FALSE]   \* a fresh DBAPI connection
             ELSE s
   IN R([s1 EXCEPT !.held = mode, !.nco = @ + 1], "ok")
DoExec(s) == LET k == s.nrow + 1 IN
             IF s.failed THEN R([s EXCEPT !.nrow = k], "PendingRollbackError")
             ELSE R(DbWrite([s EXCEPT !.root = TRUE, !.nrow = k], k), "ok")
\* a statement that fails with a non-disconnect error (duplicate key): autobegin happened, pysqlite opened its transaction
DoExecFail(s) == R([s EXCEPT !.root = TRUE, !.txn = (s.iso # "ac") \/ s.txn], "IntegrityError")
DoBegin(s) == IF s.root THEN R(s, "InvalidRequestError") ELSE R([s EXCEPT !.root = TRUE], "ok")
DoCommit(s) == IF s.failed THEN R(s, "PendingRollbackError")
               ELSE IF s.root THEN R([DbCommit(s) EXCEPT !.root = FALSE], "ok") ELSE R(s, "ok")
\* the DBAPI commit raises an ordinary (non-disconnect) error and the database keeps the transaction open
\* (SQLite: "database is locked" at COMMIT, a deferred constraint failing at COMMIT)
DoCommitFail(s) == R([s EXCEPT !.failed = TRUE], "OperationalError")
\* rollback() also emits the DBAPI rollback for a root whose commit failed (inactive but attached)
DoRollback(s) == IF s.root THEN R([DbRollback(s) EXCEPT !.root = FALSE, !.failed = FALSE], "ok") ELSE R(s, "ok")
\* Connection.execution_options(isolation_level=...): refused inside a transaction; otherwise set + register the reset finalizer
DoSetIso(s, lvl) == IF s.root THEN R(s, "InvalidRequestError")
                    \* driver semantics (sqlite3): switching the connection to autocommit (isolation_level = None) commits a
                    \* transaction that is open on it - only reachable with a transaction left over under reset_on_return=None
                    ELSE LET s1 == IF lvl = "ac" /\ s.txn THEN DbCommit(s) ELSE s
                         IN R([s1 EXCEPT !.iso = lvl, !.fin = TRUE], "ok")
\* Connection.close(): with a root -> root.close() (rollback) and the pool reset is told the transaction was already reset
DoClose(s) == IF s.root THEN R(Return(DbRollback(s), TRUE), "ok") ELSE R(Return(s, FALSE), "ok")
\* every reference dropped: the fairy's weakref callback runs _finalize_fairy with transaction_was_reset=False
DoDrop(s) == R(Return(s, FALSE), "ok")
DoRawExec(s) == LET k == s.nrow + 1 IN R(DbWrite([s EXCEPT !.nrow = k], k), "ok")
DoRawCommit(s) == R(DbCommit(s), "ok")
DoRawRollback(s) == R(DbRollback(s), "ok")
DoRawClose(s) == R(Return(s, FALSE), "ok")
\* ---- actions ----
Step(name, arg, res) == st' = res.st /\ last' = [a |-> name, arg |-> arg, ret |-> res.ret]
Checkout == st.held = "idle" /\ st.nco < MaxCheckouts /\ \E m \in {"conn", "raw"} : Step("Checkout", m, DoCheckout(st, m))
Exec == st.held = "conn" /\ st.nrow < MaxRows /\ Step("Exec", "", DoExec(st))
ExecFail == st.held = "conn" /\ ~st.failed /\ st.committed # {} /\ Step("ExecFail", "", DoExecFail(st))
Begin == st.held = "conn" /\ Step("Begin", "", DoBegin(st))
Commit == st.held = "conn" /\ Step("Commit", "", DoCommit(st))
CommitFail == st.held = "conn" /\ st.root /\ ~st.failed /\ Step("CommitFail", "", DoCommitFail(st))
Rollback == st.held = "conn" /\ Step("Rollback", "", DoRollback(st))
SetIso == st.held = "conn" /\ ~st.failed /\ \E lvl \in {"ru", "ac"} : Step("SetIso", lvl, DoSetIso(st, lvl))
Close == st.held = "conn" /\ Step("Close", "", DoClose(st))
Drop == st.held \in {"conn", "raw"} /\ Step("Drop", "", DoDrop(st))
RawExec == st.held = "raw" /\ st.nrow < MaxRows /\ Step("RawExec", "", DoRawExec(st))
RawCommit == st.held = "raw" /\ Step("RawCommit", "", DoRawCommit(st))
RawRollback == st.held = "raw" /\ Step("RawRollback", "", DoRawRollback(st))
RawClose == st.held = "raw" /\ Step("RawClose", "", DoRawClose(st))
Init == st \in {InitSt(k, r) : k \in Kinds, r \in Rors} /\ last = [a |-> "init", arg |-> "", ret |-> "ok"]
Next == Checkout \/ Exec \/ ExecFail \/ Begin \/ Commit \/ CommitFail \/ Rollback \/ SetIso \/ Close \/ Drop
        \/ RawExec \/ RawCommit \/ RawRollback \/ RawClose
Spec == Init /\ [][Next]_vars
View == st
Depth == TLCGet("level") <= MaxDepth
Obs(s) == [txn |-> s.txn, iso |-> s.iso, committed |-> s.committed, cid |-> s.cid, held |-> s.held]
Emit == PrintT(ToJson([from |-> st, act |-> last', to |-> st', obs |-> Obs(st')]))
InitEmit == Init /\ PrintT(ToJson([init |-> st]))
\* ---- properties (C24) ----
\* a connection handed out by the pool has no open transaction and no uncommitted writes left by an earlier user,
\* unless reset-on-return was explicitly disabled
CleanTxnAtCheckout == [][ (last'.a = "Checkout" /\ st.ror # "none") => (~st'.txn /\ st'.dirty = {}) ]_vars
\* ... and no non-default isolation level / AUTOCOMMIT left over (the characteristics reset is independent of reset_on_return)
CleanIsoAtCheckout == [][ last'.a = "Checkout" => (st'.iso = "default" /\ ~st'.fin) ]_vars
\* the same at rest: while nobody holds the connection it is clean
CleanWhileIdle == (st.held = "idle" /\ st.cid # 0) => (st.iso = "default" /\ (st.ror # "none" => (~st.txn /\ st.dirty = {})))
\* rows reach other connections only through a commit, a commit-on-return reset, or an AUTOCOMMIT write
PublishedOnlyByCommit == [][ st'.committed # st.committed =>
                               (last'.a \in {"Commit", "RawCommit"}
                                \/ (st.ror = "commit" /\ last'.a \in {"Close", "Drop", "RawClose"})
                                \/ (st.iso = "ac" /\ last'.a \in {"Exec", "RawExec"})
                                \/ (st.ror = "none" /\ last'.a = "SetIso")) ]_vars
\* with rollback-on-return nothing a user left uncommitted is ever published
NothingLeaksRollback == [][ (st.ror = "rollback" /\ last'.a \in {"Close", "Drop", "RawClose"}) => st'.committed = st.committed ]_vars
TypeOK == st.dirty \cap st.committed = {} /\ (st.txn \/ st.dirty = {})
=============================================================================
