---------------------------- MODULE ConstructGrammar ----------------------------
(* C22: compiling a well-formed construct never fails with an internal error.      LEVEL: exploration.

   This module contributes the ENUMERATION - the completeness of a bounded space of well-formed Core constructs - and NOT an
   oracle: what each derivation compiles to is not specified here; the property's verdict per derivation is "the exception class,
   if any, is a documented one", decided by checks/c22.py on the real compilers of six dialects.

   A derivation is a record [k, a, b, c, d, e]: the statement kind and one production choice per dimension of that kind
   ("-" = dimension unused by the kind; the first element of every dimension is its plain default).  The space is bounded by
   Depth = the number of non-default choices in one derivation (every derivation of <= Depth features is enumerated, so all
   pairwise (Depth 2) / three-way (Depth 3) combinations of productions are covered):

     select   a columns   b FROM          c WHERE         d modifiers        e wrapper
     insert   a source    b RETURNING     c upsert        d decoration       e "-"
     update   a SET       b WHERE         c RETURNING     d decoration       e "-"
     delete   a WHERE     b RETURNING     c decoration    d "-"              e "-"
     ddl      a FK graph  b table feature c operation     d naming / schema  e "-"
     cte      a CTE kind  b use site      c reuse (the SAME cte object in 1 / 2 sibling scopes)   d second site   e enclosing statement
              (the CTE family is small and enumerated as a FULL product, not cut by Depth: scoping of nesting CTEs only shows
               when kind, use site and reuse are all non-default at once)

   checks/stmtshapes_common.py (ConstructBuilder) builds the real construct of every derivation; TLC checks the sanity theorems
   Typed (every state is a derivation of exactly one kind), Bounded, and the assumption DefaultFirst (the all-default and every
   single-production derivation of every kind is enumerated - the bound cuts nothing below itself); the check verifies that every production of every dimension occurs. *)
EXTENDS Integers, Sequences, FiniteSets, TLC, Json, Randomization
CONSTANTS Depth,          \* max. number of non-default production choices per derivation
          Kinds,          \* subset of {"select", "insert", "update", "delete", "ddl", "cte"}
          Sample          \* 0: every derivation within Depth; m > 0: only m randomly chosen productions per dimension (TLC -seed)
VARIABLE d
vars == <<d>>

\* ------------------------------------------------------------------ productions (first element = default)
SelCols == <<"plain", "star", "label", "case", "cast", "func", "window", "scalar", "concat", "tuple", "extract", "literal", "bindtyped",
             "aggfilter", "within_group", "json_idx", "collate", "not_bool", "arith", "coalesce_nullif">>
SelFrom == <<"t", "join", "outer", "full", "selfjoin", "subq", "cte", "rcte", "lateral", "values", "alias", "join3", "tablesample", "func_table">>
SelCrit == <<"none", "eq", "in", "in_empty", "notin", "in_subq", "exists", "between", "like", "ilike_esc", "tuple_in", "any", "regexp",
             "isdistinct", "null_cmp", "bool_ops", "startswith_auto", "in_expanding_tuple", "scalar_cmp", "true_false">>
SelMod == <<"none", "group", "having", "order", "order_nulls", "limit", "offset", "limit_offset", "limit_expr", "fetch", "fetch_ties",
            "fetch_percent", "distinct", "distinct_on", "for_update", "for_update_of", "for_update_skip", "for_share_nowait", "hint",
            "prefix_suffix", "order_label", "group_rollup">>
SelWrap == <<"none", "union", "union_all_limit", "intersect", "except", "subq_of", "cte_of", "exists_of", "scalar_of", "nested_union",
             "cte_nested", "alias_of_union", "in_select_of">>
InsSrc == <<"values", "multi", "from_select", "defaults", "exprs", "params_only", "from_select_cte", "from_union", "sql_default_cols">>
Ret == <<"none", "cols", "star", "expr", "label">>
InsUpsert == <<"none", "pg_nothing", "pg_update", "pg_update_where", "pg_constraint", "pg_excluded_expr", "sl_nothing", "sl_update",
               "sl_update_where", "my_dup", "my_dup_expr">>
DmlDeco == <<"none", "cte", "prefix", "hint", "inline", "return_defaults", "sort_by_parameter_order">>
UpdSet == <<"values", "expr", "subq", "from_", "ordered", "case", "self_ref", "tuple_bind", "null_set">>
DmlCrit == <<"none", "eq", "in", "in_subq", "exists", "between", "tuple_in", "bool_ops", "in_empty", "correlated">>
UpdDeco == <<"none", "cte", "prefix", "hint", "limit_my", "return_defaults", "from_cte">>
DelDeco == <<"none", "cte", "using", "prefix", "hint", "limit_my">>
DdlGraph == <<"single", "fk", "selfref", "cycle", "composite_fk", "chain3", "fk_ondelete", "fk_deferrable", "m2m">>
DdlFeat == <<"plain", "index", "unique", "check", "identity", "computed", "server_default", "comment", "sequence", "func_index",
             "partial_index", "types_wide", "enum_bool", "autoinc_false", "composite_pk", "temp_prefix", "dialect_kw">>
DdlOp == <<"create_table", "drop_table", "create_all", "drop_all", "create_index", "drop_index", "add_constraint", "drop_constraint",
           "create_if_not_exists", "drop_if_exists", "create_sequence", "set_comment">>
DdlName == <<"plain", "schema", "convention", "quoted", "long_names", "schema_translate">>
CteKind == <<"plain", "recursive", "nesting", "nest_here">>           \* .cte() / .cte(recursive=True) / .cte(nesting=True) / add_cte(c, nest_here=True)
CteSite == <<"from", "scalar", "exists", "derived", "union_arm">>     \* where a scope that refers to the cte sits
CteReuse == <<"one", "two">>                                          \* the same cte OBJECT referenced from one / two sibling scopes
CteSecond == <<"same", "next">>                                       \* two scopes: both at the same kind of site / the second at the next kind
CteOuter == <<"select", "insert_from", "update_where", "delete_where">>

Rng(q) == {q[i] : i \in 1..Len(q)}
NonDefault(q, x) == IF x = q[1] \/ x = "-" THEN 0 ELSE 1
Rec(k, a, b, c, dd, e) == [k |-> k, a |-> a, b |-> b, c |-> c, d |-> dd, e |-> e]

\* ------------------------------------------------------------------ derivations per kind, with their feature count
Dims(k) == CASE k = "select" -> <<SelCols, SelFrom, SelCrit, SelMod, SelWrap>>
             [] k = "insert" -> <<InsSrc, Ret, InsUpsert, DmlDeco, <<"-">> >>
             [] k = "update" -> <<UpdSet, DmlCrit, Ret, UpdDeco, <<"-">> >>
             [] k = "delete" -> <<DmlCrit, Ret, DelDeco, <<"-">>, <<"-">> >>
             [] k = "ddl" -> <<DdlGraph, DdlFeat, DdlOp, DdlName, <<"-">> >>
             [] k = "cte" -> <<CteKind, CteSite, CteReuse, CteSecond, CteOuter>>
Features(x) == LET q == Dims(x.k)
               IN NonDefault(q[1], x.a) + NonDefault(q[2], x.b) + NonDefault(q[3], x.c) + NonDefault(q[4], x.d) + NonDefault(q[5], x.e)
Space(k) == LET q == Dims(k) IN [k : {k}, a : Rng(q[1]), b : Rng(q[2]), c : Rng(q[3]), d : Rng(q[4]), e : Rng(q[5])]    \* never enumerated
\* well-formedness beyond the constructors' own checks: combinations that do not denote a construct at all
WF(x) == /\ (x.k = "insert" /\ x.c # "none" => x.a \notin {"defaults"})                 \* an upsert needs a VALUES / SELECT source
         /\ (x.k = "insert" /\ x.a \in {"from_select", "from_select_cte", "from_union"} => x.d # "sort_by_parameter_order")
         /\ (x.k = "ddl" /\ x.c \in {"create_index", "drop_index"} => x.b \in {"index", "func_index", "partial_index"})
         /\ (x.k = "ddl" /\ x.c \in {"add_constraint", "drop_constraint"} => x.a # "single" \/ x.b \in {"unique", "check"})
         /\ (x.k = "ddl" /\ x.c = "create_sequence" => x.b = "sequence")
         /\ (x.k = "ddl" /\ x.c = "set_comment" => x.b = "comment")
         /\ (x.k = "cte" /\ x.c = "one" => x.d = "same")                                 \* a second site needs a second scope
         /\ (x.k = "cte" /\ x.e # "select" => x.b \in {"from", "scalar", "exists"})       \* DML carriers: SELECT source / WHERE criteria
\* constructive enumeration: choose the <= Depth dimensions that leave their default, then one non-default production for each
ND(qi) == Rng(qi) \ {qi[1], "-"}
Mk(k, q, asg) == LET v(n) == IF n \in DOMAIN asg THEN asg[n] ELSE q[n][1] IN Rec(k, v(1), v(2), v(3), v(4), v(5))
\* with Sample = m > 0 every dimension contributes a random subset of m of its non-default productions (TLC -seed): the derivations
\* are then all combinations of the sampled productions - used for Depth 3, where the full space is too large
Sub(qi) == IF Sample = 0 \/ Cardinality(ND(qi)) <= Sample THEN ND(qi) ELSE RandomSubset(Sample, ND(qi))
RECURSIVE Assignments(_, _)
Assignments(q, S) == IF S = {} THEN {<<>>}
                     ELSE LET n == CHOOSE n \in S : TRUE
                          IN {(n :> v) @@ f : v \in Sub(q[n]), f \in Assignments(q, S \ {n})}
Derivations(k) == LET q == Dims(k)
                  IN IF k = "cte" THEN {x \in Space(k) : WF(x)}             \* full product (4 x 5 x 2 x 2 x 4 before WF)
                     ELSE {x \in UNION {{Mk(k, q, f) : f \in Assignments(q, S)} : S \in {S \in SUBSET (1..5) : Cardinality(S) <= Depth}} : WF(x)}
Default(k) == LET q == Dims(k) IN Rec(k, q[1][1], q[2][1], q[3][1], q[4][1], q[5][1])

All == UNION {Derivations(k) : k \in Kinds}
Init == /\ d \in All
        /\ PrintT(ToJson(d))
Next == UNCHANGED vars

\* ------------------------------------------------------------------ sanity theorems
Typed == d.k \in Kinds /\ d \in Space(d.k) /\ WF(d)
Bounded == d.k = "cte" \/ Features(d) <= Depth
\* the all-default derivation of every kind is part of the space and so is every single-production derivation: the bound cuts
\* nothing below itself (a statement about the constants, checked once)
ASSUME DefaultFirst == \A k \in Kinds : /\ (WF(Default(k)) => Default(k) \in Derivations(k))
                                        /\ ((Depth >= 1 /\ Sample = 0) => \A n \in 1..5 : \A v \in ND(Dims(k)[n]) :
                                                LET x == Mk(k, Dims(k), (n :> v)) IN WF(x) => x \in Derivations(k))
=============================================================================
