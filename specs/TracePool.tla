---------------------------- MODULE TracePool ----------------------------
(* code -> spec: traces of the REAL QueuePool recorded under line-level schedules of the baton scheduler
   (checks/pool_sched.py, checks/pool_common.py) are validated against Pool.tla - all traces of a file in ONE TLC run
   (-workers 1: the progress register TLCSet(1) is per worker).
   Every scheduler step of thread t is one event; it must be explained by a stutter or by ONE action of t whose successor
   shows exactly the logged observation (_overflow, idle connection ids in queue order, the not_empty wait list, the ledger's
   open set); any number of unobservable actions of t may precede it (Catchup).  `call` events start the named operation,
   `ret` events must find the thread where that operation ends and - for connect - hand out exactly the logged connection,
   `clock` events are the controller's virtual-time steps (expired waiters leave the wait list).
   Exclusive / OpenBound / IdleBound / OverflowCounts / NoStale / QueueDisjoint are evaluated on every state on the way. *)
EXTENDS Pool, Json, IOUtils
\* one flat sequence of events for ALL traces; an event of kind "new" starts a trace and carries its configuration
Ev == JsonDeserialize(IOEnv.TRACE_FILE)
N == Len(Ev)
VARIABLES l
tvars == <<vars, l>>
TView == <<View, l>>
E == Ev[l]
Live == l <= N
CfgOf(e) == [size |-> e.size, maxo |-> e.maxo, lifo |-> e.lifo, timeout |-> e.timeout, recycle |-> e.recycle]
ProjQ == [i \in 1..Len(P.queue) |-> P.recConn[P.queue[i]]]
ObsIs(o) == /\ P'.overflow = o.ov
            /\ ProjQ' = o.q
            /\ P'.wq = o.w
            /\ P'.open = {o.open[i] : i \in 1..Len(o.open)}
SameObs == P'.overflow = P.overflow /\ ProjQ' = ProjQ /\ P'.wq = P.wq /\ P'.open = P.open
CallAct(t, op) == CASE op = "connect" -> StartGet(t)
                    [] op = "close" -> StartClose(t)
                    [] op = "drop" -> StartDrop(t)
                    [] op = "inv" -> StartInvalidate(t)
                    [] op = "soft" -> SoftInvalidate(t)
                    [] op = "poolinv" -> StartPoolInv(t)
                    [] OTHER -> FALSE
RetAct(t) == CASE E.op = "connect" /\ E.res = "ok" -> (Fairy(t) /\ P.recConn[Rec(t)] = E.id)
               [] E.op = "connect" -> (Me(t).pc = "idle" /\ Me(t).res = E.res /\ UNCHANGED vars)
               [] E.op = "soft" -> (E.res = "ok" /\ Me(t).pc = "holding" /\ UNCHANGED vars)
               [] OTHER -> (E.res = "ok" /\ Me(t).pc = "idle" /\ Me(t).res = "ok" /\ UNCHANGED vars)
Consume(t) == /\ Live /\ E.t = t
              /\ CASE E.k = "call" -> CallAct(t, E.op)
                   [] E.k = "run" -> (UNCHANGED vars \/ Internal(t))
                   [] E.k = "ret" -> RetAct(t)
                   [] OTHER -> FALSE
              /\ ObsIs(E.o)
              /\ l' = l + 1
ConsumeClock == /\ Live /\ E.k = "clock" /\ TickTo(E.clock) /\ ObsIs(E.o) /\ l' = l + 1
\* unobservable actions of the event's thread that the line-level trace has no separate event for
Catchup(t) == /\ Live /\ E.t = t /\ E.k # "call" /\ Internal(t) /\ SameObs /\ UNCHANGED l
NewTrace == /\ Live /\ E.k = "new" /\ l' = l + 1
            /\ K' = CfgOf(E) /\ P' = [P0 EXCEPT !.overflow = 0 - E.size] /\ T' = T0 /\ last' = [a |-> "init", t |-> NoT]
TInit == InitWith(CfgOf(Ev[1])) /\ l = 2 /\ TLCSet(1, 2)
TNext == (\E t \in Threads : Consume(t) \/ Catchup(t)) \/ ConsumeClock \/ NewTrace
TSpec == TInit /\ [][TNext]_tvars
Progress == TLCSet(1, IF TLCGet(1) >= l THEN TLCGet(1) ELSE l)
AllAccepted == LET p == TLCGet(1) IN
   IF p = N + 1 THEN TRUE
   ELSE (PrintT(<<"REJECTED trace", Ev[p].tr, "at event", Ev[p].n, Ev[p]>>) /\ FALSE)
=============================================================================
