---------------------------- MODULE OrmQuery ----------------------------
(* C40 / C41 / C42: what an ORM query MEANS, stated relationally and independently of the ORM.

   Part 1 (INIT InitPart1 = InitGrid \/ InitRandom, or InitExh; C40, C41).  Three tables
        P(id, x)            C(id, y, pid -> P.id NULL-able)            G(id, z, cid -> C.id NULL-able)
   NULL is 0, values are 1..MaxV.  A data set `ds` is a record of functions (px, cp, cy, gc, gz); the mapped classes have
        P.children  = the C rows whose pid is the parent, ordered by C.id DESCENDING      C.parent = the P row of pid (or None)
        C.gs        = the G rows whose cid is the child, ordered by (G.z, G.id), NULLs first
   (neither order is the order in which the tables happen to store the rows: a loader that forgets the ORDER BY shows)
   A query `q` is a record of a small grammar (root entity, WHERE form, JOIN form, what is selected, DISTINCT, ORDER BY, LIMIT, OFFSET).
   Eval(q) DEFINES the result by relational algebra over the data set - selection under SQL's three-valued logic, (outer) join,
   projection, duplicate elimination, grouping, ordered slice - with no reference to how an ORM would compute it.  The expected
   OBJECT GRAPH of an entity is defined separately (GraphP / GraphC): it depends on the data set only, never on the query and never
   on a loader strategy - which is exactly what C40 states.
   Each TLC initial state is one (data set, query) case; the theorems below are checked on it and it is printed as JSON for the
   binding (checks/c40.py: every loader-strategy / column-option assignment must produce this result and this graph;
   checks/c41.py: ORM result = this result = rows of a Core select built by the harness from Table objects).

   Part 3 (INIT InitM2M; C41): a many-to-many pair I <-> O over an association relation, see below.

   Part 2 (INIT InitPart2 = InitHierGrid \/ InitHier; C42).  A class hierarchy (root A, subclasses B1, B2 of A, C1 below B1, C2 below B1 or B2,
   D1 below C1: depth <= 3; any parent-closed subset), mapped single-table, joined-table or mixed (the mapping kind is carried for the binding only: the MEANING of a
   query does not depend on it, nor on any polymorphic loading option - which is what C42 states), each class adding one attribute; rows name their class by discriminator; a holder table H
   with H.items -> A.  HEval(q) defines: the rows of a query against class K are the rows whose class is K or below, each reported
   with its OWN class and exactly the attributes of that class and its ancestors.                                                *)
EXTENDS Integers, Sequences, FiniteSets, TLC, Json
CONSTANTS NP, NC, NG,       \* maximal table sizes; a random data set has 0..N rows per table, the maximal size weighted threefold
          MaxV,             \* attribute values 1..MaxV (0 = NULL)
          K,                \* data sets per query (grid)
          NQ,               \* number of random queries (InitRandom / InitHier)
          Roots,            \* subset of {"P", "C"}
          GridSel,          \* "forms" | "mods" | "all": which part of the systematic grid InitGrid enumerates
          GridKeep,         \* percentage of the modifier grid's (part 2: the grid's) queries that is kept (seeded random thinning; 100 = all)
          GridKeepF,        \* percentage of the form grid's queries that is kept
          NH,               \* hierarchy: maximal number of rows
          Mixed             \* hierarchy: also mappings that mix single-table and joined-table inheritance
VARIABLES k, ds, q, out
vars == <<k, ds, q, out>>

Null == 0
Vals == 1..MaxV
Pick(s) == s[RandomElement(1..Len(s))]
Sizes(n) == [i \in 1..(n + 3) |-> IF i <= n + 1 THEN i - 1 ELSE n]          \* <<0, 1, .., n, n, n>>
Min2(a, b) == IF a < b THEN a ELSE b
Max2(a, b) == IF a > b THEN a ELSE b

\* ================================================================ three-valued logic
Eq3(a, v) == IF a = Null \/ v = Null THEN "N" ELSE IF a = v THEN "T" ELSE "F"
Not3(t) == IF t = "T" THEN "F" ELSE IF t = "F" THEN "T" ELSE "N"
Or3(a, b) == IF a = "T" \/ b = "T" THEN "T" ELSE IF a = "N" \/ b = "N" THEN "N" ELSE "F"
B3(b) == IF b THEN "T" ELSE "F"
\* a IN (subquery returning the bag S)
In3(a, S) == IF S = {} THEN "F" ELSE IF a = Null THEN "N" ELSE IF a \in S THEN "T" ELSE IF Null \in S THEN "N" ELSE "F"

\* ================================================================ the data set
PIds == 1..ds.np
CIds == 1..ds.nc
GIds == 1..ds.ng
Kids(p) == {c \in CIds : ds.cp[c] = p}
GKids(c) == {g \in GIds : ds.gc[g] = c}
\* ascending sequence of a finite set of integers
Asc(S) == [i \in 1..Cardinality(S) |-> CHOOSE x \in S : Cardinality({y \in S : y < x}) = i - 1]
\* ---- the object graph of an entity: a function of the data set alone
GraphG(g) == [id |-> g, z |-> ds.gz[g], cid |-> ds.gc[g]]
Dsc(S) == [i \in 1..Cardinality(S) |-> Asc(S)[Cardinality(S) + 1 - i]]
LexLt(a, b) == \E i \in 1..Len(a) : a[i] < b[i] /\ \A j \in 1..(i - 1) : a[j] = b[j]
\* C.gs: ORDER BY g.z, g.id  (NULL = 0 sorts first, as in SQLite)
GsOrder(c) == LET S == GKids(c) IN
              [i \in 1..Cardinality(S) |-> CHOOSE g \in S : Cardinality({h \in S : LexLt(<<ds.gz[h], h>>, <<ds.gz[g], g>>)}) = i - 1]
GraphC(c) == [id |-> c, y |-> ds.cy[c], pid |-> ds.cp[c], gs |-> [i \in 1..Cardinality(GKids(c)) |-> GraphG(GsOrder(c)[i])]]
GraphP(p) == [id |-> p, x |-> ds.px[p], cs |-> [i \in 1..Cardinality(Kids(p)) |-> GraphC(Dsc(Kids(p))[i])]]

\* ================================================================ the query grammar
\*   root  "P" | "C"                       the class whose rows the query ranges over ("down" collection: P.children / C.gs)
\*   pf    WHERE form on the root row      none | xeq v | xne v | xnull            root attribute (P.x / C.y) = v, != v, IS NULL
\*                                         any | anyc v | nanyc v                  down.any(), down.any(attr == v), ~down.any(attr == v)
\*                                         anyg v  (P) children.any(gs.any(z == v))       cnt v (P) correlated COUNT(children) >= v
\*                                         insub v | ninsub v (P)  P.id [NOT] IN (SELECT pid FROM c WHERE y = v)
\*                                         pnull | has | hasx v | nhasx v (C)      pid IS NULL, parent.has(), parent.has(x == v), ~parent.has(x == v)
\*                                         uni v       the root is the UNION of (attr = v) and (down.any()) - a set operation on entity rows
\*                                         cont v      (P) children.contains(<the C object with id v>)   (C) parent == <the P object with id v>
\*   jn    JOIN form                       none | inner | innery v | outer | outery v      join along down [WHERE down.attr == v [OR down.id IS NULL]]
\*                                         par | parx v | opar | oparx v (C)               join along C.parent [WHERE P.x == v [OR P.id IS NULL]]
\*   sel   what is selected                ent | cols | x | pair (root, joined entity) | entcol (root, joined attr) | grp (root.id, COUNT(joined.id)) |
\*                                         entgrp (root, COUNT(joined.id))     (grp forms: GROUP BY root.id)
\*   dist  DISTINCT      ord  none | id | idd | x | xd  (ORDER BY identity of what is selected [DESC] / root attribute [DESC] then identity)
\*   lim, off            -1 = absent
PFormsP == {"none", "xeq", "xne", "xnull", "any", "anyc", "nanyc", "anyg", "cnt", "insub", "ninsub", "uni", "cont"}
PFormsC == {"none", "xeq", "xne", "xnull", "any", "anyc", "nanyc", "pnull", "has", "hasx", "nhasx", "uni", "cont"}
PFValued == {"xeq", "xne", "anyc", "nanyc", "anyg", "cnt", "insub", "ninsub", "hasx", "nhasx", "uni", "cont"}
JDown == {"inner", "innery", "outer", "outery"}
JUp == {"par", "parx", "opar", "oparx"}
JValued == {"innery", "outery", "parx", "oparx"}
SelJoined == {"pair", "entcol", "grp", "entgrp"}
Sels == {"ent", "cols", "x"} \cup SelJoined
Ords == {"none", "id", "idd", "x", "xd"}
\* the space of query records (documentation of the grammar's extent; random queries are drawn component-wise, see RandomQ)
QSpace == [root : Roots, pf : PFormsP \cup PFormsC, pv : Vals, jn : {"none"} \cup JDown \cup JUp, jv : Vals, sel : Sels,
           dist : BOOLEAN, ord : Ords, lim : {-1, 0, 1, 2}, off : {-1, 1, 2}]
LimW == <<-1, -1, -1, 0, 1, 1, 2, 2>>
OffW == <<-1, -1, -1, -1, 1, 1, 2>>
\* every record of QSpace is mapped to a well-formed query (inapplicable parts are reset); duplicates collapse
Norm(r) ==
  LET pf == IF r.pf \in (IF r.root = "P" THEN PFormsP ELSE PFormsC) THEN r.pf ELSE "none"
      jn == IF r.root = "P" /\ r.jn \in JUp THEN "none" ELSE r.jn
      sel0 == IF jn = "none" /\ r.sel \in SelJoined THEN "ent" ELSE r.sel
      grp == sel0 \in {"grp", "entgrp"}
      dist == r.dist /\ ~grp
      ord0 == IF dist /\ sel0 = "x" /\ r.ord \in {"id", "idd"} THEN "x" ELSE r.ord
      ord == IF ord0 = "none" /\ (r.lim # -1 \/ r.off # -1) THEN "id" ELSE ord0
      ord2 == IF dist /\ sel0 = "x" /\ ord \in {"id", "idd"} THEN "x" ELSE ord
  IN [root |-> r.root, pf |-> pf, pv |-> IF pf \in PFValued THEN r.pv ELSE 1, jn |-> jn, jv |-> IF jn \in JValued THEN r.jv ELSE 1,
      sel |-> sel0, dist |-> dist, ord |-> ord2, lim |-> r.lim, off |-> r.off]
\* a random query, drawn component-wise (kk only keeps TLC from treating the definition as a constant)
RandomQ(kk) == Norm([root |-> RandomElement(Roots), pf |-> RandomElement(PFormsP \cup PFormsC), pv |-> RandomElement(Vals),
                     jn |-> RandomElement({"none"} \cup JDown \cup JUp), jv |-> RandomElement(Vals), sel |-> RandomElement(Sels),
                     dist |-> RandomElement(BOOLEAN), ord |-> RandomElement(Ords), lim |-> Pick(LimW), off |-> Pick(OffW)])

\* ================================================================ relational semantics
RootIds(qq) == IF qq.root = "P" THEN PIds ELSE CIds
RAttr(qq, i) == IF qq.root = "P" THEN ds.px[i] ELSE ds.cy[i]
Down(qq, i) == IF qq.root = "P" THEN Kids(i) ELSE GKids(i)
DAttr(qq, j) == IF qq.root = "P" THEN ds.cy[j] ELSE ds.gz[j]
\* WHERE form evaluated on root row i
PF(qq, i) ==
  LET f == qq.pf  v == qq.pv IN
  CASE f = "none" -> "T"
    [] f = "xeq" -> Eq3(RAttr(qq, i), v)
    [] f = "xne" -> Not3(Eq3(RAttr(qq, i), v))
    [] f = "xnull" -> B3(RAttr(qq, i) = Null)
    [] f = "any" -> B3(Down(qq, i) # {})
    [] f = "anyc" -> B3(\E j \in Down(qq, i) : Eq3(DAttr(qq, j), v) = "T")
    [] f = "nanyc" -> Not3(B3(\E j \in Down(qq, i) : Eq3(DAttr(qq, j), v) = "T"))
    [] f = "anyg" -> B3(\E c \in Kids(i) : \E g \in GKids(c) : Eq3(ds.gz[g], v) = "T")
    [] f = "cnt" -> B3(Cardinality(Kids(i)) >= v)
    [] f = "insub" -> In3(i, {ds.cp[c] : c \in {c \in CIds : Eq3(ds.cy[c], v) = "T"}})
    [] f = "ninsub" -> Not3(In3(i, {ds.cp[c] : c \in {c \in CIds : Eq3(ds.cy[c], v) = "T"}}))
    [] f = "uni" -> B3(Eq3(RAttr(qq, i), v) = "T" \/ Down(qq, i) # {})
    [] f = "cont" -> IF qq.root = "P" THEN B3(v \in CIds /\ ds.cp[v] = i) ELSE B3(ds.cp[i] = v)
    [] f = "pnull" -> B3(ds.cp[i] = Null)
    [] f = "has" -> B3(ds.cp[i] # Null)
    [] f = "hasx" -> B3(ds.cp[i] # Null /\ Eq3(ds.px[ds.cp[i]], v) = "T")
    [] f = "nhasx" -> Not3(B3(ds.cp[i] # Null /\ Eq3(ds.px[ds.cp[i]], v) = "T"))
\* the joined relation: rows <<root id, other id>> (other = 0: no join, or the NULL row of an outer join)
JoinRows(qq) ==
  LET jn == qq.jn R == RootIds(qq) IN
  CASE jn = "none" -> {<<i, 0>> : i \in R}
    [] jn \in {"inner", "innery"} -> UNION {{<<i, j>> : j \in Down(qq, i)} : i \in R}
    [] jn \in {"outer", "outery"} -> UNION {IF Down(qq, i) = {} THEN {<<i, 0>>} ELSE {<<i, j>> : j \in Down(qq, i)} : i \in R}
    [] jn \in {"par", "parx"} -> {<<c, ds.cp[c]>> : c \in {c \in CIds : ds.cp[c] # Null}}
    [] jn \in {"opar", "oparx"} -> {<<c, ds.cp[c]>> : c \in CIds}
\* attribute of the joined row (NULL for the NULL row)
JAttr(qq, j) == IF j = 0 THEN Null ELSE IF qq.jn \in JUp THEN ds.px[j] ELSE DAttr(qq, j)
JF(qq, r) == CASE qq.jn \in {"innery", "parx"} -> Eq3(JAttr(qq, r[2]), qq.jv)
               [] qq.jn \in {"outery", "oparx"} -> Or3(Eq3(JAttr(qq, r[2]), qq.jv), B3(r[2] = 0))
               [] OTHER -> "T"
Selected(qq) == {r \in JoinRows(qq) : PF(qq, r[1]) = "T" /\ JF(qq, r) = "T"}
Proj(qq, r) == CASE qq.sel = "ent" -> <<r[1]>>
                 [] qq.sel = "cols" -> <<r[1], RAttr(qq, r[1])>>
                 [] qq.sel = "x" -> <<RAttr(qq, r[1])>>
                 [] qq.sel = "pair" -> <<r[1], r[2]>>
                 [] qq.sel = "entcol" -> <<r[1], JAttr(qq, r[2])>>
\* the items that are ordered and sliced: joined rows (plain), distinct projected tuples (DISTINCT), one tuple per group (GROUP BY)
Items(qq) ==
  LET S == Selected(qq) IN
  IF qq.sel \in {"grp", "entgrp"} THEN {<<i, Cardinality({r \in S : r[1] = i /\ r[2] # 0})>> : i \in {r[1] : r \in S}}
  ELSE IF qq.dist THEN {Proj(qq, r) : r \in S}
  ELSE S
Plain(qq) == ~qq.dist /\ qq.sel \notin {"grp", "entgrp"}
\* ORDER BY: root attribute of an item, and the identity of what is selected (the tie-break that makes the order total)
XOf(qq, t) == IF ~Plain(qq) /\ qq.sel = "x" THEN t[1] ELSE RAttr(qq, t[1])
Tie(qq, t) == IF Plain(qq) THEN t
              ELSE CASE qq.sel \in {"ent", "cols", "grp", "entgrp"} -> <<t[1]>>
                     [] qq.sel = "x" -> <<>>
                     [] OTHER -> t
Neg(s) == [i \in 1..Len(s) |-> 0 - s[i]]
Key(qq, t) == CASE qq.ord = "none" -> t
                [] qq.ord = "id" -> Tie(qq, t)
                [] qq.ord = "idd" -> Neg(Tie(qq, t))
                [] qq.ord = "x" -> <<XOf(qq, t)>> \o Tie(qq, t)
                [] qq.ord = "xd" -> <<0 - XOf(qq, t)>> \o Tie(qq, t)
Lex(a, b) == \E i \in 1..Min2(Len(a), Len(b)) : a[i] < b[i] /\ \A j \in 1..(i - 1) : a[j] = b[j]
Sorted(qq) == LET I == Items(qq) IN
              [n \in 1..Cardinality(I) |-> CHOOSE t \in I : Cardinality({u \in I : Lex(Key(qq, u), Key(qq, t))}) = n - 1]
Slice(s, lim, off) == LET a == IF off = -1 THEN 0 ELSE off
                          b == IF lim = -1 THEN Len(s) ELSE Min2(Len(s), a + lim) IN SubSeq(s, a + 1, b)
Eval(qq) == LET s == Slice(Sorted(qq), qq.lim, qq.off) IN
            [i \in 1..Len(s) |-> IF Plain(qq) THEN Proj(qq, s[i]) ELSE s[i]]
\* first occurrences (Result.unique(), the legacy Query's entity uniquing)
Uniq(s) == SelectSeq([i \in 1..Len(s) |-> IF \E j \in 1..(i - 1) : s[j] = s[i] THEN <<>> ELSE <<s[i]>>], LAMBDA e : e # <<>>)
UniqRows(s) == LET u == Uniq(s) IN [i \in 1..Len(u) |-> u[i][1]]
ToSet(s) == {s[i] : i \in 1..Len(s)}
\* a finite set of integer tuples as a sequence in lexicographic order
SetToSeq2(S) == [m \in 1..Cardinality(S) |-> CHOOSE t \in S : Cardinality({u \in S : Lex(u, t)}) = m - 1]

Case == [k |-> k, ds |-> ds, q |-> q, rows |-> Eval(q), uniq |-> UniqRows(Eval(q)), count |-> Len(Eval(q)), exists |-> Len(Eval(q)) > 0,
         ordered |-> q.ord # "none",
         pgraph |-> [p \in 1..ds.np |-> GraphP(p)], cgraph |-> [c \in 1..ds.nc |-> GraphC(c)]]

RandomDs == \E np \in {Pick(Sizes(NP))} : \E nc \in {Pick(Sizes(NC))} : \E ng \in {Pick(Sizes(NG))} :
              ds = [np |-> np, nc |-> nc, ng |-> ng,
                    px |-> RandomElement([1..np -> 0..MaxV]), cp |-> RandomElement([1..nc -> 0..np]), cy |-> RandomElement([1..nc -> 0..MaxV]),
                    gc |-> RandomElement([1..ng -> 0..nc]), gz |-> RandomElement([1..ng -> 0..MaxV])]
\* the systematic part: every WHERE form x every JOIN form x every select form (ordered, unsliced), and every modifier
\* combination on a few representative forms
GridForms == [root : Roots, pf : PFormsP \cup PFormsC, pv : Vals, jn : {"none"} \cup JDown \cup JUp, jv : {1}, sel : Sels,
              dist : {FALSE}, ord : {"id"}, lim : {-1}, off : {-1}]
GridMods == [root : Roots, pf : {"none", "anyc"}, pv : {1}, jn : {"none", "inner", "outery", "par"}, jv : {1}, sel : Sels \ {"grp"},
             dist : BOOLEAN, ord : Ords, lim : {-1, 0, 1, 2}, off : {-1, 1}]
GridQF == IF GridSel \in {"forms", "all"} THEN {Norm(r) : r \in GridForms} ELSE {}
GridQM == (IF GridSel \in {"mods", "all"} THEN {Norm(r) : r \in GridMods} ELSE {}) \ GridQF
Finish == /\ out = Case /\ PrintT(ToJson(out))
\* (GridKeepF / GridKeep thin the two grids; K = 0 / NQ = 0 switch a part off)
InitGrid == /\ k \in 1..K
            /\ \/ q \in GridQF /\ (GridKeepF >= 100 \/ RandomElement(1..100) <= GridKeepF)
               \/ q \in GridQM /\ (GridKeep >= 100 \/ RandomElement(1..100) <= GridKeep)
            /\ RandomDs /\ Finish
InitRandom == /\ k \in 1..NQ /\ q = RandomQ(k) /\ RandomDs /\ Finish
\* every data set of the (small) maximal sizes, one random query each
ExhDs == [np : {NP}, nc : {NC}, ng : {NG}, px : [1..NP -> 0..MaxV], cp : [1..NC -> 0..NP], cy : [1..NC -> 0..MaxV],
          gc : [1..NG -> 0..NC], gz : [1..NG -> 0..MaxV]]
InitExh == /\ k \in 1..K /\ ds \in ExhDs /\ q = RandomQ(k) /\ Finish
InitPart1 == InitGrid \/ InitRandom          \* one TLC process enumerates the systematic and the random part
Next == UNCHANGED vars

\* ================================================================ theorems (checked on every case)
NoLim(qq) == [qq EXCEPT !.lim = -1, !.off = -1]
With(qq, f, v) == [qq EXCEPT ![f] = v]
Off0 == IF q.off = -1 THEN 0 ELSE q.off
\* LIMIT / OFFSET after ORDER BY cut a contiguous piece out of the ordered, unsliced result (a prefix when there is no offset)
LimitIsSlice == LET full == Eval(NoLim(q)) IN
                /\ out.rows = SubSeq(full, Off0 + 1, IF q.lim = -1 THEN Len(full) ELSE Min2(Len(full), Off0 + q.lim))
                /\ (q.lim # -1 => Len(out.rows) <= q.lim)
                /\ (q.off = -1 => out.rows = SubSeq(full, 1, Len(out.rows)))
\* the result is ordered as requested: non-decreasing root attribute (NULL first) / identity
OrderOK == LET s == Sorted(q) IN \A i \in 1..(Len(s) - 1) :
             /\ q.ord = "x" => XOf(q, s[i]) <= XOf(q, s[i + 1])
             /\ q.ord = "xd" => XOf(q, s[i]) >= XOf(q, s[i + 1])
             /\ q.ord = "id" => s[i][1] <= s[i + 1][1]
             /\ q.ord = "idd" => s[i][1] >= s[i + 1][1]
             /\ s[i] # s[i + 1]
\* any() <=> EXISTS a related row; any(crit) = semi-join = the distinct roots of the inner join filtered by crit; ~any = complement
RootsOf(qq) == {r[1] : r \in Selected(qq)}
Base(qq) == [qq EXCEPT !.pf = "none", !.jn = "none", !.sel = "ent", !.dist = FALSE, !.ord = "id", !.lim = -1, !.off = -1]
AnyIsSemiJoin ==
  LET b == Base(q) IN
  /\ RootsOf(With(b, "pf", "any")) = {i \in RootIds(q) : Down(q, i) # {}}
  /\ RootsOf(With(b, "pf", "any")) = RootsOf(With(b, "jn", "inner"))
  /\ \A v \in Vals : /\ RootsOf([b EXCEPT !.pf = "anyc", !.pv = v]) = RootsOf([b EXCEPT !.jn = "innery", !.jv = v])
                     /\ RootsOf([b EXCEPT !.pf = "nanyc", !.pv = v]) = RootIds(q) \ RootsOf([b EXCEPT !.pf = "anyc", !.pv = v])
                     /\ RootsOf([b EXCEPT !.pf = "anyc", !.pv = v]) \subseteq RootsOf(With(b, "pf", "any"))
\* UNION of two entity selects = the rows satisfying either; contains(obj) / == obj select by the foreign key of / to that object
SetOpsOK ==
  LET b == Base(q) IN
  \A v \in Vals : /\ RootsOf([b EXCEPT !.pf = "uni", !.pv = v]) = RootsOf([b EXCEPT !.pf = "xeq", !.pv = v]) \cup RootsOf(With(b, "pf", "any"))
                   /\ (q.root = "P" => RootsOf([b EXCEPT !.pf = "cont", !.pv = v]) = {p \in PIds : v \in Kids(p)})
                   /\ (q.root = "C" => RootsOf([b EXCEPT !.pf = "cont", !.pv = v]) = IF v \in PIds THEN Kids(v) ELSE {})
\* has() <=> the many-to-one target exists (and satisfies crit); has = the roots of the inner join to the parent
HasIsJoin ==
  "C" \in Roots =>
  LET b == [Base(q) EXCEPT !.root = "C"] IN
  /\ RootsOf(With(b, "pf", "has")) = RootsOf(With(b, "jn", "par"))
  /\ RootsOf(With(b, "pf", "has")) = CIds \ RootsOf(With(b, "pf", "pnull"))
  /\ \A v \in Vals : /\ RootsOf([b EXCEPT !.pf = "hasx", !.pv = v]) = RootsOf([b EXCEPT !.jn = "parx", !.jv = v])
                     /\ RootsOf([b EXCEPT !.pf = "nhasx", !.pv = v]) = CIds \ RootsOf([b EXCEPT !.pf = "hasx", !.pv = v])
\* an outer join keeps every root row that the inner join keeps plus the roots without partner; both multiply roots by partners
JoinOK ==
  LET b == Base(q) IN
  /\ Selected(With(b, "jn", "inner")) \subseteq Selected(With(b, "jn", "outer"))
  /\ RootsOf(With(b, "jn", "outer")) = RootIds(q)
  /\ Cardinality(Selected(With(b, "jn", "inner"))) = Cardinality({j \in (IF q.root = "P" THEN CIds ELSE GIds) :
                                                                    (IF q.root = "P" THEN ds.cp[j] ELSE ds.gc[j]) # Null})
\* three-valued logic: x = v, x != v and x IS NULL partition the rows; IN / NOT IN never both, NOT IN is empty when the subquery has a NULL
ThreeValued ==
  LET b == Base(q) IN
  \A v \in Vals :
     /\ RootsOf([b EXCEPT !.pf = "xeq", !.pv = v]) \cup RootsOf([b EXCEPT !.pf = "xne", !.pv = v]) \cup RootsOf(With(b, "pf", "xnull")) = RootIds(q)
     /\ RootsOf([b EXCEPT !.pf = "xeq", !.pv = v]) \cap RootsOf([b EXCEPT !.pf = "xne", !.pv = v]) = {}
     /\ RootsOf([b EXCEPT !.pf = "xne", !.pv = v]) \cap RootsOf(With(b, "pf", "xnull")) = {}
     /\ (q.root = "P" =>
           /\ RootsOf([b EXCEPT !.pf = "insub", !.pv = v]) \cap RootsOf([b EXCEPT !.pf = "ninsub", !.pv = v]) = {}
           /\ RootsOf([b EXCEPT !.pf = "insub", !.pv = v]) = RootsOf([b EXCEPT !.pf = "anyc", !.pv = v])
           /\ ((\E c \in CIds : ds.cy[c] = v /\ ds.cp[c] = Null) => RootsOf([b EXCEPT !.pf = "ninsub", !.pv = v]) = {})
           /\ ((\A c \in CIds : ds.cy[c] = v => ds.cp[c] # Null) =>
                  RootsOf([b EXCEPT !.pf = "ninsub", !.pv = v]) = RootsOf([b EXCEPT !.pf = "nanyc", !.pv = v])))
\* DISTINCT: no duplicates, same set of tuples as without; count / exists / uniq agree with the rows
DistinctOK ==
  /\ (q.dist => \A i, j \in 1..Len(out.rows) : i # j => out.rows[i] # out.rows[j])
  /\ (q.sel \notin {"grp", "entgrp"} => ToSet(Eval(Norm(With(NoLim(q), "dist", TRUE)))) = ToSet(Eval(With(NoLim(q), "dist", FALSE))))
  /\ out.count = Len(out.rows) /\ (out.exists <=> out.rows # <<>>)
  /\ ToSet(out.uniq) = ToSet(out.rows) /\ (\A i, j \in 1..Len(out.uniq) : i # j => out.uniq[i] # out.uniq[j])
  /\ (q.dist => out.uniq = out.rows)
\* GROUP BY root: one row per root of the joined relation, the counts add up to the joined rows that have a partner
GroupOK == q.sel \in {"grp", "entgrp"} =>
  LET full == Eval(NoLim(q))
      S == Selected(q)
      RECURSIVE Sum(_)
      Sum(s) == IF s = <<>> THEN 0 ELSE Head(s)[2] + Sum(Tail(s)) IN
  /\ {full[i][1] : i \in 1..Len(full)} = {r[1] : r \in S} /\ Len(full) = Cardinality({r[1] : r \in S})
  /\ Sum(full) = Cardinality({r \in S : r[2] # 0})
\* the object graph partitions the rows: every child with a parent is in exactly that parent's collection, in the relationship's order
GraphOK ==
  /\ \A c \in CIds : ds.cp[c] # Null =>
        \A p \in PIds : (\E i \in 1..Len(out.pgraph[p].cs) : out.pgraph[p].cs[i].id = c) <=> p = ds.cp[c]
  /\ \A p \in PIds : LET cs == out.pgraph[p].cs IN
        /\ \A i \in 1..(Len(cs) - 1) : cs[i].id > cs[i + 1].id
        /\ \A i \in 1..Len(cs) : cs[i].pid = p /\ cs[i] = out.cgraph[cs[i].id]
  /\ \A c \in CIds : LET gs == out.cgraph[c].gs IN
        /\ \A i \in 1..(Len(gs) - 1) : gs[i].z < gs[i + 1].z \/ (gs[i].z = gs[i + 1].z /\ gs[i].id < gs[i + 1].id)
        /\ \A i \in 1..Len(gs) : gs[i].cid = c
        /\ Len(gs) = Cardinality({g \in GIds : ds.gc[g] = c})
Theorems == LimitIsSlice /\ OrderOK /\ AnyIsSemiJoin /\ SetOpsOK /\ HasIsJoin /\ JoinOK /\ ThreeValued /\ DistinctOK /\ GroupOK /\ GraphOK

\* ================================================================================================================================
\* Part 2: class hierarchies (C42)
\* ds = [cls, c2par, tabs, n, nh, rows]    cls: the mapped classes (parent-closed, contains "A"), c2par: the parent of C2,
\*        tabs: the classes mapped to a table of their own (joined-table inheritance; the others live in the nearest such ancestor's
\*        table = single-table inheritance; {} = pure single, cls \ {"A"} = pure joined, anything else = mixed) - binding only,
\*        rows[i] = [cls, hid, v]: discriminator, holder (0 = none) and the attribute values <<a, b1, b2, c1, c2, d1>> (0 = NULL / not applicable)
\*        The rows of a query against class K are K's and those of ALL its descendants - HMatch never looks at `tabs`.
\* q  = [at, flt, fc, fv, ord, lim, off, via]
\*        at    the class the query is written against
\*        flt   none | a (A.a == fv) | sub (criterion on the own attribute of the strict subclass fc: fc.attr == fv)
\*        via   direct (select the class) | jot (select H, at .. join H.items.of_type(at)) | aot (H.items.of_type(at).any(flt)) |
\*              items (select H, collections H.items loaded along of_type(at))
HAll == <<"A", "B1", "B2", "C1", "C2", "D1">>
HN == 6
HIx(c) == CHOOSE i \in 1..HN : HAll[i] = c
HParent(c2par, c) == CASE c = "B1" -> "A" [] c = "B2" -> "A" [] c = "C1" -> "B1" [] c = "C2" -> c2par [] c = "D1" -> "C1" [] OTHER -> "-"
RECURSIVE HAnc(_, _)
HAnc(c2par, c) == IF c = "A" THEN {"A"} ELSE {c} \cup HAnc(c2par, HParent(c2par, c))
HDescIn(cls, c2par, c) == {d \in cls : c \in HAnc(c2par, d)}
HDesc(c) == HDescIn(ds.cls, ds.c2par, c)
HChildren(c) == {d \in ds.cls \ {"A"} : HParent(ds.c2par, d) = c}
HShapes == {h \in [cls : SUBSET {"A", "B1", "B2", "C1", "C2", "D1"}, c2par : {"B1", "B2"}] :
              /\ "A" \in h.cls /\ Cardinality(h.cls) >= 2
              /\ \A c \in h.cls \ {"A"} : HParent(h.c2par, c) \in h.cls
              /\ ("C2" \notin h.cls => h.c2par = "B1")}
HRowSpace(h, nh) == [cls : h.cls, hid : 0..nh, v : [1..HN -> 0..MaxV]]
HNormRow(h, r) == [r EXCEPT !.v = [j \in 1..HN |-> IF HAll[j] \in HAnc(h.c2par, r.cls) THEN r.v[j] ELSE 0]]
HQSpace == [at : {"A", "B1", "B2", "C1", "C2", "D1"}, flt : {"none", "a", "sub"}, fc : {"B1", "B2", "C1", "C2", "D1"}, fv : Vals, ord : {"id", "idd"},
            lim : {-1, 0, 1, 2}, off : {-1, 1, 2}, via : {"direct", "jot", "aot", "items"}]
HNorm(h, r) ==
  LET at == IF r.at \in h.cls THEN r.at ELSE "A"
      below == HDescIn(h.cls, h.c2par, at) \ {at}
      flt0 == IF r.via = "items" THEN "none" ELSE r.flt
      flt == IF flt0 = "sub" /\ below = {} THEN "a" ELSE flt0
      fc == IF flt = "sub" THEN (IF r.fc \in below THEN r.fc ELSE CHOOSE c \in below : TRUE) ELSE "B1"
  IN [at |-> at, flt |-> flt, fc |-> fc, fv |-> IF flt = "none" THEN 1 ELSE r.fv, ord |-> r.ord, lim |-> r.lim, off |-> r.off, via |-> r.via]
HIds == 1..ds.n
Holders == 1..ds.nh
\* the rows a query against class `at` ranges over: the class and everything below it; criteria see NULL for attributes a row does not have
HMatch(qq, i) ==
  LET r == ds.rows[i] IN
  /\ r.cls \in HDesc(qq.at)
  /\ (qq.flt = "a" => Eq3(r.v[1], qq.fv) = "T")
  /\ (qq.flt = "sub" => r.cls \in HDesc(qq.fc) /\ Eq3(r.v[HIx(qq.fc)], qq.fv) = "T")
HItems(qq) ==
  CASE qq.via = "direct" -> {<<i>> : i \in {i \in HIds : HMatch(qq, i)}}
    [] qq.via = "jot" -> {<<ds.rows[i].hid, i>> : i \in {i \in HIds : HMatch(qq, i) /\ ds.rows[i].hid # 0}}
    [] qq.via = "aot" -> {<<h>> : h \in {h \in Holders : \E i \in HIds : ds.rows[i].hid = h /\ HMatch(qq, i)}}
    [] qq.via = "items" -> {<<h>> : h \in Holders}
HSorted(qq) == LET I == HItems(qq)
                   Ky(t) == IF qq.ord = "id" THEN t ELSE Neg(t) IN
               [m \in 1..Cardinality(I) |-> CHOOSE t \in I : Cardinality({u \in I : Lex(Ky(u), Ky(t))}) = m - 1]
HEval(qq) == Slice(HSorted(qq), qq.lim, qq.off)
\* what a loaded row IS: its own class, exactly the attributes of that class and its ancestors (-1: the attribute does not exist on it)
HObj(i) == [id |-> i, cls |-> ds.rows[i].cls, hid |-> ds.rows[i].hid,
            vals |-> [j \in 1..HN |-> IF HAll[j] \in HAnc(ds.c2par, ds.rows[i].cls) THEN ds.rows[i].v[j] ELSE -1]]
HCase == [ds |-> ds, q |-> q, rows |-> HEval(q), count |-> Len(HEval(q)), objs |-> [i \in 1..ds.n |-> HObj(i)],
          hitems |-> [h \in 1..ds.nh |-> Dsc({i \in HIds : ds.rows[i].hid = h})]]           \* H.items is ordered by A.id DESCENDING
\* mapping kinds (binding only).  Always: pure single-table, pure joined-table, and the three layered mixtures - joined-table classes
\* BELOW single-table ones (depth >= 2 joined under a single-table, non-base class), single-table below joined (only depth 1 joined), and a
\* joined-table class in the middle (depth 2 joined: single above it, single below it).  Mixed = TRUE: every subset.
HDepth(c) == CASE c = "A" -> 0 [] c \in {"B1", "B2"} -> 1 [] c \in {"C1", "C2"} -> 2 [] OTHER -> 3
TabChoices(h) == IF Mixed THEN SUBSET (h.cls \ {"A"})
                 ELSE {{}, h.cls \ {"A"}, {c \in h.cls : HDepth(c) >= 2}, {c \in h.cls : HDepth(c) = 1}, {c \in h.cls : HDepth(c) = 2}}
RandomHDs == \E h \in {RandomElement(HShapes)} : \E nn \in {Pick(Sizes(NH))} : \E nh \in {RandomElement(0..2)} :
             \E raw \in {RandomElement([1..nn -> HRowSpace(h, nh)])} :
               ds = [cls |-> h.cls, c2par |-> h.c2par, tabs |-> RandomElement(TabChoices(h)), n |-> nn, nh |-> nh,
                     rows |-> [i \in 1..nn |-> HNormRow(h, raw[i])]]
HFinish == /\ out = HCase /\ PrintT(ToJson(out))
RandomHQ(kk) == [at |-> RandomElement({"A", "B1", "B2", "C1", "C2", "D1"}), flt |-> RandomElement({"none", "a", "sub"}),
                 fc |-> RandomElement({"B1", "B2", "C1", "C2", "D1"}), fv |-> RandomElement(Vals), ord |-> RandomElement({"id", "idd"}),
                 lim |-> Pick(LimW), off |-> Pick(OffW), via |-> RandomElement({"direct", "jot", "aot", "items"})]
InitHier == /\ k \in 1..NQ /\ RandomHDs /\ q = HNorm(ds, RandomHQ(k)) /\ HFinish
\* systematic: every shape x {single, joined [, mixed]} x every class queried x every via x every filter, unsliced, with random rows
InitHierGrid == /\ k \in 1..K
                /\ \E h \in HShapes : \E tb \in TabChoices(h) : \E nn \in {Pick(Sizes(NH))} : \E nh \in {RandomElement(1..2)} :
                   \E raw \in {RandomElement([1..nn -> HRowSpace(h, nh)])} :
                     ds = [cls |-> h.cls, c2par |-> h.c2par, tabs |-> tb, n |-> nn, nh |-> nh, rows |-> [i \in 1..nn |-> HNormRow(h, raw[i])]]
                /\ q \in {HNorm(ds, r) : r \in [at : ds.cls, flt : {"none", "a", "sub"}, fc : ds.cls \ {"A"}, fv : {1}, ord : {"id"},
                                               lim : {-1}, off : {-1}, via : {"direct", "jot", "aot", "items"}]}
                /\ (GridKeep >= 100 \/ RandomElement(1..100) <= GridKeep)
                /\ HFinish

InitPart2 == InitHierGrid \/ InitHier

\* ---- theorems of part 2
HNoLim(qq) == [qq EXCEPT !.lim = -1, !.off = -1]
HSet(qq) == HItems(HNoLim(qq))
\* the result of a query against a class is the rows of exactly that class plus the results of the same query against each direct subclass
\* (pairwise disjoint): "the class and its subclasses", recursively
HUnionOfSubclasses ==
  q.via \in {"direct", "jot"} =>
    LET own == {t \in HSet(q) : ds.rows[t[Len(t)]].cls = q.at}
        sub(c) == HSet([q EXCEPT !.at = c]) IN
    /\ HSet(q) = own \cup UNION {sub(c) : c \in HChildren(q.at)}
    /\ \A c \in HChildren(q.at) : sub(c) \cap own = {} /\ \A d \in HChildren(q.at) \ {c} : sub(c) \cap sub(d) = {}
\* every returned row is reported as the class its discriminator names - never as a base class of it - and shows exactly the attributes
\* of that class and its ancestors
HMostSpecific ==
  \A i \in HIds : LET o == out.objs[i] IN
    /\ o.cls = ds.rows[i].cls
    /\ \A j \in 1..HN : (o.vals[j] # -1) <=> (HAll[j] \in HAnc(ds.c2par, o.cls))
    /\ \A j \in 1..HN : o.vals[j] # -1 => o.vals[j] = ds.rows[i].v[j]
    /\ (q.via \in {"direct", "jot"} /\ (\E t \in HSet(q) : t[Len(t)] = i) => o.cls \in HDesc(q.at))
HLimitIsSlice == LET full == HEval(HNoLim(q)) a == IF q.off = -1 THEN 0 ELSE q.off IN
                 /\ out.rows = SubSeq(full, a + 1, IF q.lim = -1 THEN Len(full) ELSE Min2(Len(full), a + q.lim))
                 /\ \A i \in 1..(Len(full) - 1) : IF q.ord = "id" THEN Lex(full[i], full[i + 1]) ELSE Lex(full[i + 1], full[i])
\* of_type through the holder: the joined pairs are the direct result restricted to held items; any() = the holders of those pairs
HViaOK ==
  /\ {t[2] : t \in HSet([q EXCEPT !.via = "jot"])} = {t[1] : t \in {u \in HSet([q EXCEPT !.via = "direct"]) : ds.rows[u[1]].hid # 0}}
  /\ {t[1] : t \in HSet([q EXCEPT !.via = "aot"])} = {t[1] : t \in HSet([q EXCEPT !.via = "jot"])}
  /\ \A h \in Holders : \A i \in HIds : (\E m \in 1..Len(out.hitems[h]) : out.hitems[h][m] = i) <=> ds.rows[i].hid = h
HTheorems == HUnionOfSubclasses /\ HMostSpecific /\ HLimitIsSlice /\ HViaOK

\* ================================================================================================================================
\* Part 3: a many-to-many pair (C41).  INIT InitM2M.
\* ds = [ni, no, ix, ox, link]   two entity sets  I(id, x)  and  O(id, x)  and an association RELATION  link \subseteq I \X O  (table
\*      assoc(iid, oid)); mapped  I.orders = relationship(O, secondary = assoc),  O.items = relationship(I, secondary = assoc)  and the
\*      scalar views  I.one / O.one  (same join, uselist = False) for has() and != None.
\* q  = [root, f, v, ja, ord]    root "I" | "O" (T = the other class, rel = the root's collection of T)
\*      f   any        rel.any()                                  anyc v    rel.any(T.x == v)            nanyc v   ~rel.any(T.x == v)
\*          nest v     rel.any(T.rel.any(Root.id == v))           NESTED any() across both directions of the same many-to-many:
\*                                                                 the roots that share a partner with root #v
\*          nestc v    rel.any(T.rel.any(Root.x == v))            cont v    rel.contains(<T #v>)        ncont v   ~rel.contains(<T #v>)
\*          has v      one.has(T.x == v)                          nnone     one != None
\*      ja  the statement ALSO joins the association table explicitly:  select(Root, assoc.<T fk>).join(assoc, assoc.<root fk> == Root.id)
\*          - one row per link of a qualifying root (the enclosing FROM then already contains the bare association table)
\*      ord "id" | "idd"
MForms == {"any", "anyc", "nanyc", "nest", "nestc", "cont", "ncont", "has", "nnone"}
MOther(r) == IF r = "I" THEN "O" ELSE "I"
MIds(r) == IF r = "I" THEN 1..ds.ni ELSE 1..ds.no
MAttr(r, i) == IF r = "I" THEN ds.ix[i] ELSE ds.ox[i]
\* the partners of row i of class r
MLinked(r, i) == IF r = "I" THEN {o \in 1..ds.no : <<i, o>> \in ds.link} ELSE {j \in 1..ds.ni : <<j, i>> \in ds.link}
MPF(qq, i) ==
  LET r == qq.root  t == MOther(qq.root)  v == qq.v  f == qq.f IN
  CASE f \in {"any", "nnone"} -> MLinked(r, i) # {}
    [] f \in {"anyc", "has"} -> \E j \in MLinked(r, i) : Eq3(MAttr(t, j), v) = "T"
    [] f = "nanyc" -> ~\E j \in MLinked(r, i) : Eq3(MAttr(t, j), v) = "T"
    [] f = "nest" -> \E j \in MLinked(r, i) : v \in MLinked(t, j)
    [] f = "nestc" -> \E j \in MLinked(r, i) : \E m \in MLinked(t, j) : Eq3(MAttr(r, m), v) = "T"
    [] f = "cont" -> v \in MLinked(r, i)
    [] f = "ncont" -> v \notin MLinked(r, i)
MItems(qq) == IF qq.ja THEN UNION {{<<i, j>> : j \in MLinked(qq.root, i)} : i \in {i \in MIds(qq.root) : MPF(qq, i)}}
              ELSE {<<i>> : i \in {i \in MIds(qq.root) : MPF(qq, i)}}
MEval(qq) == LET I == MItems(qq)
                 Ky(t) == IF qq.ord = "id" THEN t ELSE Neg(t) IN
             [m \in 1..Cardinality(I) |-> CHOOSE t \in I : Cardinality({u \in I : Lex(Ky(u), Ky(t))}) = m - 1]
MNorm(r) == [r EXCEPT !.v = IF r.f \in {"any", "nnone"} THEN 1 ELSE r.v, !.ja = r.ja /\ r.f # "cont"]
MCase == [ds |-> [ni |-> ds.ni, no |-> ds.no, ix |-> ds.ix, ox |-> ds.ox, link |-> SetToSeq2(ds.link)], q |-> q, rows |-> MEval(q),
          uniq |-> UniqRows([i \in 1..Len(MEval(q)) |-> <<MEval(q)[i][1]>>]), count |-> Len(MEval(q))]
RandomMDs == \E ni \in {Pick(Sizes(NP))} : \E no \in {Pick(Sizes(NC))} :
               ds = [ni |-> ni, no |-> no, ix |-> RandomElement([1..ni -> 0..MaxV]), ox |-> RandomElement([1..no -> 0..MaxV]),
                     link |-> RandomElement(SUBSET ((1..ni) \X (1..no)))]
RandomMQ(kk) == MNorm([root |-> RandomElement({"I", "O"}), f |-> RandomElement(MForms), v |-> RandomElement(1..Max2(MaxV, 2)),
                       ja |-> RandomElement(BOOLEAN), ord |-> RandomElement({"id", "idd"})])
\* every form x both roots x with / without the explicit association join, K random data sets each, plus NQ random pairs
InitM2M == /\ \/ /\ k \in 1..K
                 /\ q \in {MNorm(r) : r \in [root : {"I", "O"}, f : MForms, v : 1..2, ja : BOOLEAN, ord : {"id"}]}
                 /\ RandomMDs
              \/ /\ k \in (K + 1)..(K + NQ) /\ RandomMDs /\ q = RandomMQ(k)
           /\ out = MCase /\ PrintT(ToJson(out))
\* ---- theorems of part 3
MRoots(qq) == {i \in MIds(qq.root) : MPF(qq, i)}
MTheorems ==
  LET b == [q EXCEPT !.ja = FALSE]  r == q.root  t == MOther(q.root) IN
  \* any() <=> a link exists; any(crit) is a subset; ~any(crit) its complement; has / != None agree with any
  /\ MRoots([b EXCEPT !.f = "any"]) = {i \in MIds(r) : \E pr \in ds.link : (IF r = "I" THEN pr[1] ELSE pr[2]) = i}
  /\ \A v \in 1..2 : /\ MRoots([b EXCEPT !.f = "anyc", !.v = v]) \subseteq MRoots([b EXCEPT !.f = "any"])
                     /\ MRoots([b EXCEPT !.f = "nanyc", !.v = v]) = MIds(r) \ MRoots([b EXCEPT !.f = "anyc", !.v = v])
                     /\ MRoots([b EXCEPT !.f = "has", !.v = v]) = MRoots([b EXCEPT !.f = "anyc", !.v = v])
                     \* nested any(): the roots sharing a partner with #v: contains #v itself iff #v has a partner; symmetric
                     /\ (v \in MIds(r) => ((v \in MRoots([b EXCEPT !.f = "nest", !.v = v])) <=> (MLinked(r, v) # {})))
                     /\ \A i \in MIds(r) : (i \in MRoots([b EXCEPT !.f = "nest", !.v = v]) /\ v \in MIds(r))
                                            => v \in MRoots([b EXCEPT !.f = "nest", !.v = i])
                     /\ MRoots([b EXCEPT !.f = "nest", !.v = v]) \subseteq MRoots([b EXCEPT !.f = "any"])
                     /\ MRoots([b EXCEPT !.f = "cont", !.v = v]) \cup MRoots([b EXCEPT !.f = "ncont", !.v = v]) = MIds(r)
                     /\ MRoots([b EXCEPT !.f = "cont", !.v = v]) \cap MRoots([b EXCEPT !.f = "ncont", !.v = v]) = {}
  \* the explicit association join multiplies each qualifying root by its links and never adds or removes a root that has a link
  /\ {tt[1] : tt \in MItems([q EXCEPT !.ja = TRUE])} = {i \in MRoots(b) : MLinked(r, i) # {}}
  /\ Cardinality(MItems([q EXCEPT !.ja = TRUE])) = Cardinality({pr \in ds.link : (IF r = "I" THEN pr[1] ELSE pr[2]) \in MRoots(b)})
  /\ out.count = Len(out.rows)
=============================================================================
