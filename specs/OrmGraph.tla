---------------------------- MODULE OrmGraph ----------------------------
(* Bidirectional one-to-many relationship P.children <-> C.parent (back_populates), its cascades, attribute history and the
   result of Session.flush(), as the code computes them (mechanism layer; transcribed from an executable mirror that was diffed
   against the real ORM, DESIGN Appendix I, grown with history, the modified flag and the dependency-processor steps), plus the
   abstract statements of C30 / C36 / C37 / C39 over that mechanism (section "properties").

   One record `st` is the whole state; each operation is a pure function st -> [st, ret].
     life[o]     transient | pending | persistent | deleted | detached          (InstanceState of object o)
     coll[p]     the in-memory list p.children            parent[c]  the in-memory c.parent ("none" = None)
     pid[c]      the in-memory FK attribute c.pid         ccoll/cpar/cpid   committed values (what history is measured against;
                 cpar = "novalue" for an object that was never flushed: its history reports every value, even None, as added)
     hp[c]       the `hasparent` flag of c for P.children: unknown | no | <last parent>
     orph        C._orphaned_outside_of_session           marked  session.deleted       mod  InstanceState.modified
     val[c]      a plain data column c.val ("v0" | "v1"), cval its committed value ("novalue" until the first flush)
     dbp, dbc, dbv   rows inside the session's transaction: parent keys, child FK, child val   ("absent" = no row)
     dead        the history ended with an exception whose partial effects are not modelled (flush failure, cascade into a
                 deleted object, Session.delete()/expunge() of an already deleted object)
   Session: autoflush off.  All relationship attributes are loaded/initialised (new objects are built with children=[],
   parent=None; CommitReload loads both sides).  *)
EXTENDS Integers, Sequences, FiniteSets, TLC, Json
CONSTANTS NP, NC,            \* number of parents / children; objects are named "p1".."pNP", "c1".."cNC" (= primary keys 1..)
          Ps, Cs,            \* the same names as sets (must equal Range(PSeq), Range(CSeq): ASSUME below)
          Casc,              \* cascade set of P.children  \subseteq {"save-update","merge","delete","delete-orphan","expunge","refresh-expire"}
          Nullable,          \* c.pid NULLable
          Acts,              \* enabled action names
          InitMode,          \* "empty" | "loaded" | "both"
          AllowDup,          \* Append/Insert of a child that is already in the list
          Kind,              \* collection class of P.children: "list" | "set" | "dict" (attribute_keyed_dict on the child's key).  The abstract
                             \* state is the same sequence of members (dict: insertion order, set: order irrelevant); the kind selects the
                             \* mutator vocabulary of the M* actions below, whose third argument names the Python mutator the driver calls
          Uni,               \* unidirectional mapping: only P.children exists (no C.parent, no backref, no many-to-one processor); a child
                             \* may then sit in two lists at once and a move is two explicit steps (append to the new, remove from the old)
          MaxDepth
VARIABLES st, last
vars == <<st, last>>
None == "none"
NoValue == "novalue"
Range(q) == {q[i] : i \in 1..Len(q)}
PAll == <<"p1", "p2", "p3">>
CAll == <<"c1", "c2", "c3", "c4">>
ASSUME Ps = Range(SubSeq(PAll, 1, NP)) /\ Cs = Range(SubSeq(CAll, 1, NC))
Objs == Ps \cup Cs
DOrph == "delete-orphan" \in Casc
\* ---------------------------------------------------------------- sequences
RemoveOne(q, x) == IF x \notin Range(q) THEN q
                   ELSE LET i == CHOOSE i \in 1..Len(q) : q[i] = x /\ \A j \in 1..(i-1) : q[j] # x
                        IN SubSeq(q, 1, i - 1) \o SubSeq(q, i + 1, Len(q))
InsertAt(q, i, x) == SubSeq(q, 1, i) \o <<x>> \o SubSeq(q, i + 1, Len(q))       \* i = 0-based python index, 0..Len
DeleteAt(q, i) == SubSeq(q, 1, i - 1) \o SubSeq(q, i + 1, Len(q))                 \* i = 1-based
Count(q, x) == Cardinality({i \in 1..Len(q) : q[i] = x})
\* ---------------------------------------------------------------- state
NewSt == [life |-> [o \in Objs |-> "transient"], coll |-> [p \in Ps |-> <<>>], parent |-> [c \in Cs |-> None],
          pid |-> [c \in Cs |-> None], ccoll |-> [p \in Ps |-> {}], cpar |-> [c \in Cs |-> NoValue], cpid |-> [c \in Cs |-> None],
          hp |-> [c \in Cs |-> "unknown"], orph |-> {}, marked |-> {}, mod |-> Objs,
          val |-> [c \in Cs |-> "v0"], cval |-> [c \in Cs |-> NoValue], dbv |-> [c \in Cs |-> "absent"],
          dbp |-> {}, dbc |-> [c \in Cs |-> "absent"], dead |-> FALSE, err |-> "ok",
          dupseen |-> FALSE,       \* ghost: some list has held the same child twice (C37 finding, DESIGN 6)
          multi |-> {},            \* ghost (unidirectional mapping): children that sat in two lists at once when a flush ran
          stale |-> {}]            \* ghost: children whose FK attribute a flush wrote while they were NOT session members and that have not been
                                   \* re-synchronised since (the flush warns "not in session ... will not proceed" but still sets c.pid in memory)
\* a fresh session after commit: every row loaded (both sides), objects without a row are new transient instances
Reload(dbp, dbc, dbv) ==
   [NewSt EXCEPT !.life = [o \in Objs |-> IF o \in dbp \/ (o \in Cs /\ dbc[o] # "absent") THEN "persistent" ELSE "transient"],
                 !.coll = [p \in Ps |-> IF p \in dbp THEN SelectSeq(CAll, LAMBDA c : c \in Cs /\ dbc[c] = p) ELSE <<>>],
                 !.ccoll = [p \in Ps |-> IF p \in dbp THEN {c \in Cs : dbc[c] = p} ELSE {}],
                 !.parent = [c \in Cs |-> IF dbc[c] = "absent" \/ Uni THEN None ELSE dbc[c]],
                 !.cpar = [c \in Cs |-> IF dbc[c] = "absent" \/ Uni THEN NoValue ELSE dbc[c]],
                 !.pid = [c \in Cs |-> IF dbc[c] = "absent" THEN None ELSE dbc[c]],
                 !.cpid = [c \in Cs |-> IF dbc[c] = "absent" THEN None ELSE dbc[c]],
                 !.mod = {o \in Objs : ~(o \in dbp \/ (o \in Cs /\ dbc[o] # "absent"))},
                 !.val = [c \in Cs |-> IF dbc[c] = "absent" THEN "v0" ELSE dbv[c]],
                 !.cval = [c \in Cs |-> IF dbc[c] = "absent" THEN NoValue ELSE dbv[c]],
                 !.dbp = dbp, !.dbc = dbc, !.dbv = dbv]
\* the "loaded" initial database: every parent has a row; children alternate  first parent / no parent / second parent ...
LoadedDbc == [c \in Cs |-> LET i == CHOOSE i \in 1..Len(CAll) : CAll[i] = c
                           IN IF i % 3 = 1 THEN PAll[1] ELSE IF i % 3 = 2 /\ Nullable THEN None ELSE PAll[NP]]
LoadedDbv == [c \in Cs |-> "v0"]
R(s, r) == [st |-> s, ret |-> IF s.dead THEN s.err ELSE r]
Die(s, e) == [s EXCEPT !.dead = TRUE, !.err = e]
InSess(s, o) == s.life[o] \in {"pending", "persistent"}
Attached(s, o) == s.life[o] \in {"pending", "persistent", "deleted"}          \* state.session is not None
HasKey(s, o) == s.life[o] \in {"persistent", "detached", "deleted"}
KeyOf(s, o) == IF HasKey(s, o) THEN o ELSE "nokey"
HasParent(s, c, optimistic) == IF s.hp[c] = "unknown" THEN optimistic ELSE s.hp[c] # "no"
IsOrphan(s, c) == DOrph /\ ~HasParent(s, c, HasKey(s, c))                       \* Mapper._is_orphan
\* ---------------------------------------------------------------- attribute history (C36): diff(committed, current)
HistAdded(s, p) == {c \in Range(s.coll[p]) : c \notin s.ccoll[p]}
HistUnch(s, p) == Range(s.coll[p]) \cap s.ccoll[p]
HistDel(s, p) == s.ccoll[p] \ Range(s.coll[p])
Val(v) == IF v \in {None, NoValue} THEN {} ELSE {v}
ScalarHist(cur, com) == IF Val(cur) = Val(com) /\ com # NoValue THEN <<{}, Val(cur), {}>>
                        ELSE IF Val(cur) = Val(com) THEN <<{}, {}, {}>>          \* never-flushed object, value None: added=[None], observed as empty
                        ELSE <<Val(cur), {}, Val(com)>>
Hist(s) == [o \in Objs |-> IF o \in Ps THEN <<HistAdded(s, o), HistUnch(s, o), HistDel(s, o)>> ELSE ScalarHist(s.parent[o], s.cpar[o])]
ValHist(s) == [c \in Cs |-> IF s.cval[c] = NoValue THEN <<{s.val[c]}, {}, {}>>
                           ELSE IF s.val[c] = s.cval[c] THEN <<{}, {s.val[c]}, {}>> ELSE <<{s.val[c]}, {}, {s.cval[c]}>>]
PidHist(s) == [c \in Cs |-> IF s.pid[c] = s.cpid[c] THEN <<{}, Val(s.pid[c]), {}>> ELSE <<Val(s.pid[c]), {}, Val(s.cpid[c])>>]
\* ---------------------------------------------------------------- Session.add / save-update cascade
\* get_all_pending: current members and the members removed since the last commit (history.deleted) are both cascaded
Nbrs(s, x) == IF x \in Ps THEN (IF "save-update" \in Casc THEN Range(s.coll[x]) \cup s.ccoll[x] ELSE {})
              ELSE Val(s.parent[x]) \cup Val(s.cpar[x])
RECURSIVE Closure(_, _)
Closure(s, X) == LET nxt == {y \in UNION {Nbrs(s, x) : x \in X} : y \notin X /\ ~InSess(s, y)}
                 IN IF nxt = {} THEN X ELSE Closure(s, X \cup nxt)
Attach(l) == IF l = "transient" THEN "pending" ELSE IF l = "detached" THEN "persistent" ELSE l
SouState(s, o) ==       \* Session._save_or_update_state
   LET X == Closure(s, {o}) IN
   IF \E x \in X : s.life[x] = "deleted" THEN Die(s, "InvalidRequestError")
   ELSE [s EXCEPT !.life = [x \in Objs |-> IF x \in X THEN Attach(s.life[x]) ELSE s.life[x]], !.marked = @ \ X, !.orph = @ \ {o}]
DoAdd(s, o) == R(SouState(s, o), "ok")
DoDelete(s, o) ==
   IF ~HasKey(s, o) THEN R(s, "InvalidRequestError")
   ELSE IF s.life[o] = "deleted" THEN R(Die(s, "ok"), "ok")                      \* accepted by the code (C35 finding); not modelled further
   ELSE IF o \in s.marked THEN R(s, "ok")
   ELSE LET kids == IF o \in Ps /\ "delete" \in Casc THEN {c \in Range(s.coll[o]) : HasKey(s, c)} ELSE {}
            T == {o} \cup {c \in kids : c \notin s.marked}
        IN IF \E c \in kids : s.life[c] = "deleted" THEN R(Die(s, "ok"), "ok")
           ELSE R([s EXCEPT !.life = [x \in Objs |-> IF x \in T THEN Attach(s.life[x]) ELSE s.life[x]], !.marked = @ \cup T], "ok")
DoExpunge(s, o) ==
   IF ~Attached(s, o) THEN R(s, "InvalidRequestError")
   ELSE LET T == {o} \cup (IF o \in Ps /\ "expunge" \in Casc THEN Range(s.coll[o]) ELSE {}) IN
        IF \E x \in T : s.life[x] = "deleted" THEN R(Die(s, "ok"), "ok")
        ELSE R([s EXCEPT !.life = [x \in Objs |-> IF x \in T THEN (IF s.life[x] = "pending" THEN "transient"
                                                                    ELSE IF s.life[x] = "persistent" THEN "detached" ELSE s.life[x])
                                                   ELSE s.life[x]],
                         !.marked = @ \ T], "ok")
\* ---------------------------------------------------------------- attribute events
\* P.children "remove" event for c on p: sethasparent(False) (kept when the last parent is a different identity), then the
\* delete-orphan listener: a pending orphan is expunged at once when p belongs to a session, otherwise the orphan is remembered
EvRemove(s, p, c) ==
   LET h == IF s.hp[c] \in Ps /\ KeyOf(s, s.hp[c]) # KeyOf(s, p) THEN s.hp[c] ELSE "no"
       s1 == [s EXCEPT !.hp[c] = h]
   IN IF DOrph /\ IsOrphan(s1, c)
      THEN IF Attached(s1, p) /\ s1.life[c] = "pending" THEN [s1 EXCEPT !.life[c] = "transient"] ELSE [s1 EXCEPT !.orph = @ \cup {c}]
      ELSE s1
\* save-update cascade on append: only for a direct collection operation (no cascade_backrefs in 2.x), runs BEFORE the backref
CascAppend(s, p, c) == IF Attached(s, p) /\ "save-update" \in Casc /\ ~InSess(s, c) THEN SouState(s, c) ELSE s
\* backref: pop c from the old parent's list (the remove event fires even when c is not in it)
UnlinkFromOld(s, c, old) == LET s1 == EvRemove(s, old, c) IN [s1 EXCEPT !.mod = @ \cup {old}, !.coll[old] = RemoveOne(@, c)]
AppendAt(s, p, c, idx) ==
   LET s1 == CascAppend(s, p, c)
       old == s1.parent[c]
       s2 == IF Uni \/ old = p THEN s1 ELSE [(IF old # None THEN UnlinkFromOld(s1, c, old) ELSE s1) EXCEPT !.parent[c] = p]
   IN [s2 EXCEPT !.mod = @ \cup (IF Uni THEN {p} ELSE {p, c}), !.hp[c] = p, !.coll[p] = InsertAt(@, idx, c), !.dupseen = @ \/ c \in Range(s2.coll[p])]
\* list.remove() fires the remove event BEFORE the item leaves the list, list.pop() AFTER: the backref's has_dupes() test
\* (leave c.parent alone while another occurrence remains) therefore sees one occurrence less for pop
RemoveAt(s, p, i, isPop) ==       \* i 1-based
   LET c == s.coll[p][i]
       s1 == [EvRemove(s, p, c) EXCEPT !.mod = @ \cup {p}]
       seen == Count(s.coll[p], c) - (IF isPop THEN 1 ELSE 0)
       s2 == IF seen <= 1 /\ s1.parent[c] = p THEN [s1 EXCEPT !.parent[c] = None, !.mod = @ \cup {c}] ELSE s1
   IN [s2 EXCEPT !.coll[p] = DeleteAt(@, i)]
\* list.__setitem__(i, c): remove event for the member in the slot (fired while it is still in the list: has_dupes sees every occurrence),
\* then the append event for c (cascade, backref: c.parent := p, unlink from another parent), then the slot is overwritten.  Assigning
\* the member that already sits in the slot therefore clears and restores its parent; `noteDup` feeds the dupseen ghost
SetItemAt(s, p, i, c, noteDup) ==      \* i 1-based
   LET e == s.coll[p][i]
       s1 == [EvRemove(s, p, e) EXCEPT !.mod = @ \cup {p}]
       s2 == IF Count(s.coll[p], e) <= 1 /\ s1.parent[e] = p THEN [s1 EXCEPT !.parent[e] = None, !.mod = @ \cup {e}] ELSE s1
       s3 == CascAppend(s2, p, c)
       old == s3.parent[c]
       s4 == IF Uni \/ old = p THEN s3 ELSE [(IF old # None THEN UnlinkFromOld(s3, c, old) ELSE s3) EXCEPT !.parent[c] = p]
       q == [s4.coll[p] EXCEPT ![i] = c]
   IN [s4 EXCEPT !.mod = @ \cup (IF Uni THEN {p} ELSE {p, c}), !.hp[c] = p, !.coll[p] = q,
                 !.dupseen = @ \/ (noteDup /\ Len(q) # Cardinality(Range(q)))]
\* p.children[::-1] = list(p.children): an extended-slice assignment is one __setitem__ per index, last index first, values in the
\* original order (the list holds duplicates in between; a middle element of an odd-length list is assigned onto itself)
RECURSIVE ReverseFrom(_, _, _, _)
ReverseFrom(s, p, orig, k) ==      \* k = 1..Len(orig): slot Len-k+1 receives orig[k]
   IF k > Len(orig) THEN s ELSE ReverseFrom(SetItemAt(s, p, Len(orig) - k + 1, orig[k], FALSE), p, orig, k + 1)
DoReverse(s, p) == R(ReverseFrom(s, p, s.coll[p], 1), "ok")
\* clear(): one remove event per member, then the collection is emptied
RECURSIVE ClearAll(_, _)
ClearAll(s, p) == IF s.coll[p] = <<>> THEN s ELSE ClearAll(RemoveAt(s, p, 1, FALSE), p)
\* mutator vocabulary per collection kind (every name is one Python call; the effect on the abstract state is the same within a row)
AddHows == IF Kind = "set" THEN {"add", "update", "ior"} ELSE IF Kind = "dict" THEN {"setitem", "setdefault", "update"} ELSE {"append"}
RemHows == IF Kind = "set" THEN {"remove", "discard", "isub"} ELSE IF Kind = "dict" THEN {"delitem", "pop", "popdefault"} ELSE {"remove"}
\* calls that name a member which is NOT in the collection: set.discard(c) does nothing at all; dict.pop(k, default) still announces a
\* removal first (fire_pre_remove_event), which flags the owner as modified without any history
NoopHows == IF Kind = "set" THEN {"discard"} ELSE IF Kind = "dict" THEN {"popdefault"} ELSE {}
FirstIdx(q, x) == CHOOSE i \in 1..Len(q) : q[i] = x /\ \A j \in 1..(i-1) : q[j] # x
DoSetParent(s, c, np) ==
   LET old == s.parent[c]
       s0 == [s EXCEPT !.mod = @ \cup {c}]
   IN IF old = np THEN R(s0, "ok")
      ELSE LET s1 == IF Attached(s0, c) /\ np # None /\ ~InSess(s0, np) THEN SouState(s0, np) ELSE s0      \* cascade listener first
               s2 == IF old # None THEN UnlinkFromOld(s1, c, old) ELSE s1
               s3 == IF np # None THEN [s2 EXCEPT !.hp[c] = np, !.coll[np] = Append(@, c), !.mod = @ \cup {np}] ELSE s2
           IN R([s3 EXCEPT !.parent[c] = np], "ok")
DoSetVal(s, c, v) == R([s EXCEPT !.val[c] = v, !.mod = @ \cup {c}], "ok")
RECURSIVE ReplaceIn(_, _, _, _)
ReplaceIn(s, p, old, q) ==     \* bulk_replace: append for new members, append_wo_mutation (cascade only) for kept ones
   IF q = <<>> THEN s
   ELSE LET c == Head(q)
            s1 == IF c \notin old THEN AppendAt(s, p, c, Len(s.coll[p]))
                  ELSE [CascAppend(s, p, c) EXCEPT !.coll[p] = Append(@, c)]
        IN ReplaceIn(s1, p, old, Tail(q))
RECURSIVE ReplaceOut(_, _, _)
ReplaceOut(s, p, q) ==         \* remove events for the members that left (fired twice when the scalar backref is cleared)
   IF q = <<>> THEN s
   ELSE LET c == Head(q)
            s1 == EvRemove(s, p, c)
            s2 == IF s1.parent[c] = p THEN EvRemove([s1 EXCEPT !.parent[c] = None, !.mod = @ \cup {c}], p, c) ELSE s1
        IN ReplaceOut(s2, p, Tail(q))
DoReplace(s, p, new) ==
   LET old == s.coll[p]
       s1 == ReplaceIn([s EXCEPT !.coll[p] = <<>>, !.mod = @ \cup {p}], p, Range(old), new)
   IN R(ReplaceOut(s1, p, SelectSeq(old, LAMBDA c : c \notin Range(new))), "ok")
\* ---------------------------------------------------------------- flush (Session._flush + UOWTransaction + dependency processors)
HasParentPess(s, c) == s.hp[c] \in Ps              \* DependencyProcessor.hasparent(child): no flag counts as False
W(r, w) == IF w THEN r \o "+warn" ELSE r
FlushCore(s) ==
   LET new == {o \in Objs : s.life[o] = "pending"}
       dirty == {o \in Objs : s.life[o] = "persistent" /\ o \notin s.marked /\ o \in s.mod}
       cand == new \cup dirty
       exp == {c \in cand \cap Cs : IsOrphan(s, c) /\ s.life[c] = "pending" /\ c \in s.orph}        \* pending orphans made outside a session: expunged
       s1 == [s EXCEPT !.life = [o \in Objs |-> IF o \in exp THEN "transient" ELSE s.life[o]]]
       u0all == (cand \ exp) \cup s.marked
       u0del == {c \in (cand \ exp) \cap Cs : IsOrphan(s, c) /\ s.life[c] = "persistent"} \cup s.marked
       pdel == Ps \cap u0del
       psave == (Ps \cap u0all) \ u0del
       \* presort: what the one-to-many processor registers (children of flushed parents)
       delOrph(c) == \E p \in pdel \cup psave : c \in HistDel(s1, p) /\ ~HasParentPess(s1, c)
       inAdded(c) == \E p \in psave : c \in HistAdded(s1, p)
       unchOfDeleted(c) == "delete" \notin Casc /\ \E p \in pdel : c \in HistUnch(s1, p)
       delOfSaved(c) == \E p \in psave : c \in HistDel(s1, p)
       regDel == {c \in Cs : InSess(s1, c) /\ DOrph /\ delOrph(c)}
       regCancel == {c \in Cs : InSess(s1, c) /\ inAdded(c)}                                  \* register_object(cancel_delete=True)
       regPlain == {c \in Cs : InSess(s1, c) /\ ((~DOrph /\ delOrph(c)) \/ unchOfDeleted(c) \/ (~DOrph /\ delOfSaved(c)))}
       uall == u0all \cup regDel \cup regCancel \cup regPlain
       udel == (u0del \cup regDel) \ regCancel
       usave == uall \ udel
       warn1 == \E c \in Cs : ~InSess(s1, c) /\ s1.life[c] # "deleted"
                              /\ (unchOfDeleted(c) \/ inAdded(c) \/ (delOfSaved(c) /\ (~DOrph \/ ~HasParentPess(s1, c))))
       \* process: (1) one-to-many process_deletes, (2) many-to-one process_saves, (3) one-to-many process_saves
       addedAll == UNION {HistAdded(s1, p) : p \in psave}
       clrA == {c \in Cs : c \notin udel /\ \E p \in pdel : (c \in HistDel(s1, p) /\ ~HasParentPess(s1, c))
                                                             \/ ("delete" \notin Casc /\ c \in HistUnch(s1, p) /\ c \notin addedAll)}
       pidA == [c \in Cs |-> IF c \in clrA THEN None ELSE s1.pid[c]]
       m2o == IF Uni THEN {} ELSE {c \in usave \cap Cs : s1.parent[c] # s1.cpar[c]}
       setB == {c \in m2o : s1.parent[c] = None \/ InSess(s1, s1.parent[c])}
       warn2 == \E c \in m2o : s1.parent[c] # None /\ ~InSess(s1, s1.parent[c])
       pidB == [c \in Cs |-> IF c \in setB THEN s1.parent[c] ELSE pidA[c]]
       setC == {c \in Cs : c \notin udel /\ inAdded(c)}
       clrC == {c \in Cs : c \notin udel /\ ~DOrph /\ ~HasParentPess(s1, c) /\ delOfSaved(c)}
       pidC == [c \in Cs |-> IF c \in setC THEN (CHOOSE p \in psave : c \in HistAdded(s1, p)) ELSE IF c \in clrC THEN None ELSE pidB[c]]
       \* named deviation NondetFk: a child that one flushed parent reports as added and another as removed-without-parent (possible only
       \* after a remove event on a duplicate occurrence left hasparent False on a child that is still in a list, see MemberNotOrphan) gets
       \* its FK set by one parent and cleared by the other in the iteration order of a Python set: the outcome is not specified
       nondet == \E c \in Cs : (c \in setC /\ c \in clrC) \/ (c \notin udel /\ Cardinality({p \in psave : c \in HistAdded(s1, p)}) > 1)
       touched == clrA \cup setB \cup setC \cup clrC
       warn == warn1 \/ warn2
       \* DML
       insP == {p \in usave \cap Ps : s1.life[p] = "pending"}
       insC == {c \in usave \cap Cs : s1.life[c] = "pending"}
       updC == {c \in usave \cap Cs : s1.life[c] = "persistent" /\ (pidC[c] # s1.cpid[c] \/ s1.val[c] # s1.cval[c])}
       dbp2 == (s1.dbp \cup insP) \ udel
       dbc2 == [c \in Cs |-> IF c \in udel THEN "absent" ELSE IF c \in insC \cup updC THEN pidC[c] ELSE s1.dbc[c]]
       dbv2 == [c \in Cs |-> IF c \in udel THEN "absent" ELSE IF c \in insC \cup updC THEN s1.val[c] ELSE s1.dbv[c]]
       sound == (\A c \in Cs : dbc2[c] \in Ps => dbc2[c] \in dbp2) /\ (Nullable \/ \A c \in Cs : dbc2[c] # None)
       \* statement, row, FK parameter, val parameter ("-" = column not written)
       dml == {<<"INSERT", p, "-", "-">> : p \in insP} \cup {<<"INSERT", c, pidC[c], s1.val[c]>> : c \in insC}
              \cup {<<"UPDATE", c, IF pidC[c] # s1.cpid[c] THEN pidC[c] ELSE "-", IF s1.val[c] # s1.cval[c] THEN s1.val[c] ELSE "-">> : c \in updC}
              \cup {<<"DELETE", o, "-", "-">> : o \in udel}
       s2 == [s1 EXCEPT !.pid = pidC, !.mod = (@ \cup touched) \ usave, !.dbp = dbp2, !.dbc = dbc2, !.dbv = dbv2,
                        !.cval = [c \in Cs |-> IF c \in usave THEN s1.val[c] ELSE s1.cval[c]],
                        !.stale = (@ \cup (touched \ usave)) \ (touched \cap usave),
                        !.multi = @ \cup {c \in Cs : Cardinality({p \in Ps : c \in Range(s1.coll[p])}) > 1},
                        !.life = [o \in Objs |-> IF o \in udel THEN "deleted" ELSE IF o \in usave THEN "persistent" ELSE s1.life[o]],
                        !.marked = @ \ udel,
                        !.ccoll = [p \in Ps |-> IF p \in usave THEN Range(s1.coll[p]) ELSE s1.ccoll[p]],
                        !.cpar = [c \in Cs |-> IF c \in usave THEN s1.parent[c] ELSE s1.cpar[c]],
                        !.cpid = [c \in Cs |-> IF c \in usave THEN pidC[c] ELSE s1.cpid[c]]]
   IN IF uall = {} THEN [st |-> s1, ret |-> "ok", warn |-> FALSE, dml |-> {}]
      ELSE IF \E o \in udel : s1.life[o] = "pending"          \* a pending object registered for DELETE: "NULL primary key" FlushError
           THEN [st |-> Die(s1, "FlushError"), ret |-> "FlushError", warn |-> warn1, dml |-> {}]
      ELSE IF nondet THEN [st |-> Die(s1, "ok"), ret |-> "ok", warn |-> warn, dml |-> {}]
      ELSE IF ~sound THEN [st |-> Die(s1, "IntegrityError"), ret |-> "IntegrityError", warn |-> warn, dml |-> {}]
      ELSE [st |-> s2, ret |-> "ok", warn |-> warn, dml |-> dml]
Clean(s) == ~\E o \in Objs : s.life[o] = "pending" \/ o \in s.marked \/ (s.life[o] = "persistent" /\ o \in s.mod)
\* Session.commit(): flush until clean (the code allows 100 rounds; three are unrolled here, a fourth would be a spec gap => dead "FlushError")
CommitLoop(s) ==
   IF Clean(s) THEN [st |-> s, ret |-> "ok", warn |-> FALSE, dml |-> {}]
   ELSE LET f1 == FlushCore(s) IN
   IF f1.st.dead \/ Clean(f1.st) THEN f1
   ELSE LET f2 == FlushCore(f1.st)
            r2 == [st |-> f2.st, ret |-> f2.ret, warn |-> f1.warn \/ f2.warn, dml |-> f1.dml \cup f2.dml] IN
   IF f2.st.dead \/ Clean(f2.st) THEN r2
   ELSE LET f3 == FlushCore(f2.st)
            r3 == [st |-> f3.st, ret |-> f3.ret, warn |-> r2.warn \/ f3.warn, dml |-> r2.dml \cup f3.dml] IN
   IF f3.st.dead \/ Clean(f3.st) THEN r3
   ELSE [st |-> Die(f3.st, "FlushError"), ret |-> "FlushError", warn |-> r3.warn, dml |-> r3.dml]
\* ---------------------------------------------------------------- actions
Finish(s) == IF s.dead THEN [NewSt EXCEPT !.dead = TRUE] ELSE s
\* (the singleton quantifiers make TLC evaluate each result once: LETs are not cached in action-level formulas)
Step(name, arg, res, dml) == \E r \in {res} : \E d \in {dml} :
                             /\ st' = Finish(r.st)
                             /\ last' = [a |-> name, arg |-> arg, ret |-> r.ret, dml |-> d]
Enabled(a) == a \in Acts /\ ~st.dead
Seqs2(S) == ({<<>>} \cup {<<x>> : x \in S} \cup {<<x, y>> : x \in S, y \in S}) \ {<<x, x>> : x \in S}
Add == Enabled("Add") /\ \E o \in Objs : Step("Add", <<o>>, DoAdd(st, o), {})
Delete == Enabled("Delete") /\ \E o \in Objs : Step("Delete", <<o>>, DoDelete(st, o), {})
Expunge == Enabled("Expunge") /\ \E o \in Objs : Step("Expunge", <<o>>, DoExpunge(st, o), {})
CanAdd(p, c) == c \notin Range(st.coll[p]) \/ (AllowDup /\ Count(st.coll[p], c) < 2)
AppendA == Enabled("Append") /\ \E p \in Ps, c \in Cs : CanAdd(p, c)
                                 /\ Step("Append", <<p, c>>, R(AppendAt(st, p, c, Len(st.coll[p])), "ok"), {})
InsertA == Enabled("Insert") /\ \E p \in Ps, c \in Cs : CanAdd(p, c) /\ Len(st.coll[p]) > 0
                                 /\ Step("Insert", <<p, 0, c>>, R(AppendAt(st, p, c, 0), "ok"), {})
SetItemA == Enabled("SetItem") /\ \E p \in Ps : \E i \in 1..Len(st.coll[p]) : \E c \in Cs :
                                 (c = st.coll[p][i] \/ c \notin Range(st.coll[p]) \/ (AllowDup /\ Count(st.coll[p], c) < 2))
                                 /\ Step("SetItem", <<p, i - 1, c>>, R(SetItemAt(st, p, i, c, TRUE), "ok"), {})
ReverseA == Enabled("Reverse") /\ \E p \in Ps : Len(st.coll[p]) >= 2 /\ Cardinality(Range(st.coll[p])) = Len(st.coll[p])
                                 /\ Step("Reverse", <<p>>, DoReverse(st, p), {})
MAddA == Enabled("MAdd") /\ \E p \in Ps, c \in Cs : c \notin Range(st.coll[p]) /\ \E h \in AddHows :
                                 Step("MAdd", <<p, c, h>>, R(AppendAt(st, p, c, Len(st.coll[p])), "ok"), {})
MRemA == Enabled("MRem") /\ \E p \in Ps, c \in Cs : c \in Range(st.coll[p]) /\ \E h \in RemHows :
                                 Step("MRem", <<p, c, h>>, R(RemoveAt(st, p, FirstIdx(st.coll[p], c), h \in {"pop", "popdefault"}), "ok"), {})
\* dict.popitem() takes the member inserted last; set.pop() takes an arbitrary member, so it is taken only from a one-member set
MPopA == Enabled("MPop") /\ \E p \in Ps : (IF Kind = "set" THEN Len(st.coll[p]) = 1 ELSE Len(st.coll[p]) >= 1) /\ Kind # "list"
                                 /\ Step("MPop", <<p>>, R(RemoveAt(st, p, Len(st.coll[p]), TRUE), "ok"), {})
MClearA == Enabled("MClear") /\ \E p \in Ps : Len(st.coll[p]) >= 1 /\ Step("MClear", <<p>>, R(ClearAll(st, p), "ok"), {})
MNoopA == Enabled("MNoop") /\ \E p \in Ps, c \in Cs : c \notin Range(st.coll[p]) /\ \E h \in NoopHows :
                                 Step("MNoop", <<p, c, h>>, R(IF h = "popdefault" THEN [st EXCEPT !.mod = @ \cup {p}] ELSE st, "ok"), {})
RemoveA == Enabled("Remove") /\ \E p \in Ps, c \in Cs : c \in Range(st.coll[p])
                                 /\ Step("Remove", <<p, c>>, R(RemoveAt(st, p, FirstIdx(st.coll[p], c), FALSE), "ok"), {})
PopA == Enabled("Pop") /\ \E p \in Ps : Len(st.coll[p]) > 0 /\ \E i \in {0, Len(st.coll[p]) - 1} :
                                 Step("Pop", <<p, i>>, R(RemoveAt(st, p, i + 1, TRUE), "ok"), {})
ReplaceA == Enabled("Replace") /\ \E p \in Ps, q \in Seqs2(Cs) : q # st.coll[p] /\ Step("Replace", <<p>> \o q, DoReplace(st, p, q), {})
SetValA == Enabled("SetVal") /\ \E c \in Cs, v \in {"v0", "v1"} : v # st.val[c] /\ Step("SetVal", <<c, v>>, DoSetVal(st, c, v), {})
SetParentA == Enabled("SetParent") /\ \E c \in Cs, np \in Ps \cup {None} : Step("SetParent", <<c, np>>, DoSetParent(st, c, np), {})
FlushA == Enabled("Flush") /\ \E f \in {FlushCore(st)} : Step("Flush", <<>>, [st |-> f.st, ret |-> W(f.ret, f.warn)], f.dml)
CommitReloadA == Enabled("CommitReload") /\ \E f \in {CommitLoop(st)} :
                    Step("CommitReload", <<>>, [st |-> IF f.st.dead THEN f.st ELSE Reload(f.st.dbp, f.st.dbc, f.st.dbv), ret |-> W(f.ret, f.warn)], f.dml)
\* "half": only the first parent (and its children) have rows - the other parents are new objects without an identity key
HalfDbc == [c \in Cs |-> IF LoadedDbc[c] = PAll[1] THEN PAll[1] ELSE "absent"]
InitStates == (IF InitMode \in {"empty", "both"} THEN {NewSt} ELSE {})
              \cup (IF InitMode \in {"loaded", "both"} THEN {Reload(Ps, LoadedDbc, LoadedDbv)} ELSE {})
              \cup (IF InitMode = "half" THEN {Reload({PAll[1]}, HalfDbc, [c \in Cs |-> IF HalfDbc[c] = "absent" THEN "absent" ELSE "v0"])} ELSE {})
Init == st \in InitStates /\ last = [a |-> "init", arg |-> <<>>, ret |-> "ok", dml |-> {}]
Next == MAddA \/ MRemA \/ MPopA \/ MClearA \/ MNoopA \/ SetItemA \/ ReverseA \/ SetValA \/ Add \/ Delete \/ Expunge \/ AppendA \/ InsertA \/ RemoveA \/ PopA \/ ReplaceA \/ SetParentA \/ FlushA \/ CommitReloadA
Spec == Init /\ [][Next]_vars
View == st
Obs(s) == [hist |-> Hist(s), pidhist |-> PidHist(s), valhist |-> ValHist(s), insess |-> {o \in Objs : InSess(s, o)}]
Emit == PrintT(ToJson([from |-> st, act |-> last', to |-> st', obs |-> Obs(st')]))
InitEmit == Init /\ PrintT(ToJson([init |-> st]))
Depth == TLCGet("level") <= MaxDepth
\* ================================================================ properties
Ok == last.ret \in {"ok", "ok+warn"} /\ ~st.dead
\* ---- C37: both sides of the relationship agree, after every mutation, after flush and after commit + reload
BothSides == \A p \in Ps, c \in Cs : (c \in Range(st.coll[p])) <=> (st.parent[c] = p)
NoDuplicates == \A p \in Ps : Len(st.coll[p]) = Cardinality(Range(st.coll[p]))
BothSides_NoDup == ~st.dupseen => BothSides          \* holds on every history in which no list ever held a child twice
\* ---- C36: committed values change only when the unit of work writes them; flush persists exactly the history it found
CommittedOnlyAtFlush == [][last'.a \notin {"Flush", "CommitReload"} =>
                            (st'.dead \/ (st'.ccoll = st.ccoll /\ st'.cpar = st.cpar /\ st'.cpid = st.cpid /\ st'.cval = st.cval
                                          /\ st'.dbp = st.dbp /\ st'.dbc = st.dbc /\ st'.dbv = st.dbv))]_vars
\* after a successful flush no session member has history left, and its row equals its attributes
FlushClearsHistory == (last.a = "Flush" /\ Ok) =>
      \A o \in Objs : (InSess(st, o) /\ o \notin st.marked) =>
            IF o \in Ps THEN HistAdded(st, o) = {} /\ HistDel(st, o) = {} ELSE (st.parent[o] = st.cpar[o] /\ st.pid[o] = st.cpid[o] /\ st.dbc[o] = st.pid[o] /\ st.val[o] = st.cval[o] /\ st.dbv[o] = st.val[o])
\* a row changes only if the object had net history (or was new / deleted): set-back-to-original writes nothing
NoHistoryNoWrite == [][(last'.a = "Flush" /\ ~st'.dead) =>
      /\ \A c \in Cs : (st.life[c] = "persistent" /\ st'.life[c] = "persistent" /\ st'.dbv[c] # st.dbv[c]) => st.val[c] # st.cval[c]
      /\ \A c \in Cs : (st.life[c] = "persistent" /\ st'.life[c] = "persistent" /\ st'.dbc[c] # st.dbc[c]) =>
             (st.parent[c] # st.cpar[c] \/ st.pid[c] # st.cpid[c] \/ \E p \in Ps : c \in HistAdded(st, p) \cup HistDel(st, p) \/ (p \in st.marked /\ c \in st.ccoll[p]))]_vars
\* ---- C30: after a successful flush the rows equal the in-memory graph over the session's members
RowsEqualGraph == (last.a \in {"Flush", "CommitReload"} /\ Ok) =>
      /\ \A p \in Ps : (InSess(st, p) => p \in st.dbp) /\ (st.life[p] = "deleted" => p \notin st.dbp)
      /\ \A c \in Cs : /\ InSess(st, c) => st.dbc[c] # "absent"
                       /\ st.life[c] = "deleted" => st.dbc[c] = "absent"
                       /\ (InSess(st, c) /\ c \notin st.marked /\ st.parent[c] = None) => st.dbc[c] = None
                       /\ (InSess(st, c) /\ c \notin st.marked /\ st.parent[c] # None /\ InSess(st, st.parent[c])) => st.dbc[c] = st.parent[c]
\* the same, except for a child whose FK attribute was written by an earlier flush while the child was outside the session (that flush
\* warned) and has not been re-synchronised: re-adding it flushes the stale attribute even when both relationship sides show no net change
RowsEqualGraph_ExceptStaleFk == (last.a \in {"Flush", "CommitReload"} /\ Ok) =>
      /\ \A p \in Ps : (InSess(st, p) => p \in st.dbp) /\ (st.life[p] = "deleted" => p \notin st.dbp)
      /\ \A c \in Cs : /\ InSess(st, c) => st.dbc[c] # "absent"
                       /\ st.life[c] = "deleted" => st.dbc[c] = "absent"
                       /\ (InSess(st, c) /\ c \notin st.marked /\ c \notin st.stale /\ st.parent[c] = None) => st.dbc[c] = None
                       /\ (InSess(st, c) /\ c \notin st.marked /\ c \notin st.stale /\ st.parent[c] # None /\ InSess(st, st.parent[c])) => st.dbc[c] = st.parent[c]
\* one flush writes the whole pending state: nothing is left pending or marked for deletion (violated: DESIGN 6, C30)
FlushIsComplete == (last.a = "Flush" /\ Ok) => (st.marked = {} /\ \A o \in Objs : st.life[o] # "pending")
\* the same, except for a delete-marked child that the flush found in the added-history of an in-session parent (cancel_delete)
FlushCompleteExceptReparented == [][(last'.a = "Flush" /\ ~st'.dead) =>
      /\ \A o \in Objs : st'.life[o] # "pending"
      /\ \A o \in st'.marked : o \in Cs /\ \E p \in Ps : InSess(st, p) /\ o \in HistAdded(st, p)]_vars
FkSound == \A c \in Cs : st.dbc[c] \in Ps => st.dbc[c] \in st.dbp
\* ---- C39
\* save-update: everything reachable from an added object through save-update cascades is in the session afterwards
\* (the traversal starts at the added object and continues through objects that were not yet members: an object that already is
\*  a member had its own cascade when it was added - Mapper.cascade_iterator(halt_on=session._contains_state); named deviation "HaltOnMember")
RECURSIVE Reach(_, _, _)
Reach(s, o, X) == LET open == {x \in X : x = o \/ ~InSess(s, x)}
                      nxt == UNION {IF x \in Ps THEN (IF "save-update" \in Casc THEN Range(s.coll[x]) ELSE {}) ELSE Val(s.parent[x]) : x \in open} \ X
                  IN IF nxt = {} THEN X ELSE Reach(s, o, X \cup nxt)
AddReachesClosure == [][(last'.a = "Add" /\ last'.ret = "ok" /\ ~st'.dead) => \A x \in Reach(st, last'.arg[1], {last'.arg[1]}) : InSess(st', x)]_vars
\* a direct append / insert to an in-session parent pulls a non-member child in (cascade on the operated attribute only) ...
PulledIn(c) == last'.a \in {"Append", "Insert"} /\ "save-update" \in Casc /\ InSess(st, last'.arg[1]) /\ c = last'.arg[Len(last'.arg)]
\* ... and re-association never throws a session member out of the session
Reassoc(c) == last'.a \in {"Append", "Insert", "SetParent", "Replace", "SetItem", "Reverse", "MAdd"} /\ ~st'.dead /\ st'.parent[c] # None
\* carve-out = the confirmed defect (DESIGN 6, C39): under delete-orphan a child without a row that is moved away from an old parent is
\* expunged by the backref's removal from that parent although it is being re-associated
OrphanMove(c) == DOrph /\ ~HasKey(st, c) /\ st.parent[c] \notin {None, st'.parent[c]}
AppendCascades == [][\A c \in Cs : (Reassoc(c) /\ PulledIn(c)) => InSess(st', c)]_vars
ReassocKeepsMember == [][\A c \in Cs : (Reassoc(c) /\ InSess(st, c)) => InSess(st', c)]_vars
AppendCascades_ExceptOrphanMove == [][\A c \in Cs : (Reassoc(c) /\ PulledIn(c) /\ ~OrphanMove(c)) => InSess(st', c)]_vars
ReassocKeepsMember_ExceptOrphanMove == [][\A c \in Cs : (Reassoc(c) /\ InSess(st, c) /\ ~OrphanMove(c)) => InSess(st', c)]_vars
\* delete: exactly the object and what its delete cascade reaches (objects that have a row) get marked
DeleteMarksExactly == [][(last'.a = "Delete" /\ last'.ret = "ok" /\ ~st'.dead /\ last'.arg[1] \notin st.marked) =>
       LET o == last'.arg[1] IN
       st'.marked = st.marked \cup {o} \cup (IF o \in Ps /\ "delete" \in Casc THEN {c \in Range(st.coll[o]) : HasKey(st, c)} ELSE {})]_vars
\* ... and the next flush removes their rows (unless the delete was cancelled by a re-association: the C30 finding)
MarkedAreDeleted == [][(last'.a = "Flush" /\ ~st'.dead) => \A o \in st.marked : (o \in st'.marked \/ (IF o \in Ps THEN o \notin st'.dbp ELSE st'.dbc[o] = "absent"))]_vars
\* expunge: exactly the object and what its expunge cascade reaches leave the session
ExpungeExactly == [][(last'.a = "Expunge" /\ last'.ret = "ok" /\ ~st'.dead) =>
       LET o == last'.arg[1]
           T == {o} \cup (IF o \in Ps /\ "expunge" \in Casc THEN Range(st.coll[o]) ELSE {})
       IN \A x \in Objs : InSess(st', x) <=> (InSess(st, x) /\ x \notin T)]_vars
\* delete-orphan: a persistent child removed from its parent and not re-associated is deleted by the flush ...
OrphanDeleted == [][(last'.a = "Flush" /\ ~st'.dead /\ DOrph) =>
       \A c \in Cs : (st.life[c] = "persistent" /\ st.parent[c] = None /\ (\E p \in Ps : c \in HistDel(st, p)) /\ \A q \in Ps : c \notin Range(st.coll[q]))
                      => st'.dbc[c] = "absent"]_vars
\* ... and one that has been re-associated with a parent in the session is kept
ReassociatedKept == [][(last'.a = "Flush" /\ ~st'.dead /\ DOrph) =>
       \A c \in Cs : (st.life[c] = "persistent" /\ c \notin st.marked /\ st.parent[c] # None /\ InSess(st, st.parent[c]) /\ st.parent[c] \notin st.marked
                      /\ c \in Range(st.coll[st.parent[c]]) /\ c \notin st'.stale) => st'.dbc[c] = st.parent[c]]_vars
\* unidirectional mapping (no backref): a persistent child that sits in the collection of a member parent when the flush starts is not
\* deleted by it, whatever the order in which it was attached to that parent and detached from another ("unless it has been re-associated").
\* Carve-out (single hasparent flag, named deviation OneFlagPerChild): a child that a flush has seen in TWO lists at once (an inconsistent
\* one-to-many graph the user built and flushed) and that is then taken out of the list it was appended to last is deleted although it
\* still sits in the other list
UniMemberKept == [][(last'.a = "Flush" /\ ~st'.dead /\ DOrph) =>
       \A c \in Cs : (st.life[c] = "persistent" /\ c \notin st.marked /\ c \notin st'.multi
                      /\ \E p \in Ps : InSess(st, p) /\ p \notin st.marked /\ c \in Range(st.coll[p]))
                      => st'.dbc[c] # "absent"]_vars
\* after any flush no row remains whose delete-orphan parent row is gone
NoRowOfGoneParent == [][(last'.a = "Flush" /\ ~st'.dead /\ DOrph) =>
       \A c \in Cs : (st.dbc[c] \in Ps /\ st.dbc[c] \notin st'.dbp) => (st'.dbc[c] = "absent" \/ st'.dbc[c] \in st'.dbp)]_vars
\* a child that sits in a collection (and points back at its owner) is not flagged as having lost that parent.  Violated by index /
\* extended-slice assignment: the remove event fired for one of two occurrences keeps the backref (has_dupes) but still calls
\* sethasparent(False); with delete-orphan the flush then DELETEs a child that never left the collection
MemberNotOrphan == \A p \in Ps, c \in Cs : (c \in Range(st.coll[p]) /\ st.parent[c] = p) => st.hp[c] # "no"
\* marked objects are persistent members
MarkedArePersistent == \A o \in st.marked : st.life[o] = "persistent"
TypeOK == /\ \A c \in Cs : st.parent[c] \in Ps \cup {None} /\ st.pid[c] \in Ps \cup {None} /\ st.dbc[c] \in Ps \cup {None, "absent"}
          /\ \A p \in Ps : Range(st.coll[p]) \subseteq Cs
          /\ \A c \in Cs : st.val[c] \in {"v0", "v1"} /\ st.dbv[c] \in {"v0", "v1", "absent"} /\ (st.dbv[c] = "absent" <=> st.dbc[c] = "absent")
          /\ st.dbp \subseteq Ps
=============================================================================
