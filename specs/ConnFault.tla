---------------------------- MODULE ConnFault ----------------------------
(* ConnTxn.tla extended with DBAPI faults (C27) : every DBAPI-level operation a Connection performs
   (statement execute, SAVEPOINT / ROLLBACK TO / RELEASE, commit, rollback) can fail with
     "disc"  an error the dialect classifies as a disconnect (the DBAPI connection is dead afterwards), or
     "err"   an ordinary DBAPI error,
   at ANY position of a history, with a handle_error listener variant L that can re-classify the error
   or switch off pool invalidation.  Mechanism transcribed from engine/base.py
   (_handle_dbapi_exception, invalidate, _revalidate_connection, _invalid_transaction, Root/NestedTransaction
   error paths) and pool/base.py (_ConnectionFairy.invalidate -> record checked in without a connection;
   Pool._invalidate -> records older than the invalidation time are replaced at their next checkout).

   Pool: QueuePool(pool_size=2, max_overflow=0), FIFO.  Setup: the Connection under test holds DBAPI connection 1,
   DBAPI connection 2 is idle in the pool (opened BEFORE any failure) - so "pooled connections opened before the
   failure are not reused" is observable on the ledger of connection ids. *)
EXTENDS Integers, Sequences, FiniteSets, TLC, Json
CONSTANTS MaxH, MaxRows, MaxDepth, MaxFaults, Faults, L
\* L : handle_error listener variant
\*   "none"   no listener            "keep"   listener that changes nothing
\*   "undisc" sets ctx.is_disconnect = False      "todisc" sets ctx.is_disconnect = True
\*   "nopool" sets ctx.invalidate_pool_on_disconnect = False
VARIABLES st, last
vars == <<st, last>>
NoH == 0
HRec(kind, sp, prev) == [kind |-> kind, active |-> TRUE, prev |-> prev, sp |-> sp]
InitSt == [h |-> <<>>, root |-> NoH, nested |-> NoH, dbtx |-> << {} >>, dbsp |-> <<>>, committed |-> {},
           spseq |-> 0, closed |-> FALSE, nrow |-> 0,
           \* connection / pool / ledger
           inv |-> FALSE, cur |-> 1, idle |-> <<2>>, open |-> {1, 2}, stale |-> {}, deadc |-> {}, nconn |-> 2, nfault |-> 0,
           \* ghost reference layer (see ConnTxn.tla)
           rowh |-> <<>>, undone |-> {}, pend |-> {}, refc |-> {}]
R(s, r) == [st |-> s, ret |-> r]
\* ---------- database (reference; state of the CURRENT dbapi connection's transaction) ----------
DbCommit(s)   == [s EXCEPT !.committed = @ \cup UNION {s.dbtx[i] : i \in 1..Len(s.dbtx)}, !.dbtx = << {} >>, !.dbsp = <<>>,
                             !.refc = @ \cup (s.pend \ s.undone), !.pend = {}, !.undone = {}]
DbRollback(s) == [s EXCEPT !.dbtx = << {} >>, !.dbsp = <<>>, !.pend = {}, !.undone = {}]
\* the database-side transaction is lost (connection died / was closed) without the reference being told by a rollback call:
\* for the reference this IS a rollback of all uncommitted work
DbLost(s) == DbRollback(s)
DbSavepoint(s, n) == [s EXCEPT !.dbsp = Append(@, n), !.dbtx = Append(@, {})]
SpIndex(s, n) == IF \E i \in 1..Len(s.dbsp) : s.dbsp[i] = n THEN CHOOSE i \in 1..Len(s.dbsp) : s.dbsp[i] = n ELSE 0
DbRollbackTo(s, i) == [s EXCEPT !.dbtx = Append(SubSeq(@, 1, i), {}), !.dbsp = SubSeq(@, 1, i)]
DbRelease(s, i) == LET merged == UNION {s.dbtx[j] : j \in (i+1)..Len(s.dbtx)}
                   IN [s EXCEPT !.dbtx = [SubSeq(@, 1, i) EXCEPT ![i] = @ \cup merged], !.dbsp = SubSeq(@, 1, i - 1)]
\* ---------- faults ----------
IsDisc(k) == (k = "disc" /\ L # "undisc") \/ (k = "err" /\ L = "todisc")
PoolInv == L # "nopool"
ExcName(k) == IF k = "disc" THEN "ProgrammingError" ELSE "OperationalError"
\* which fault (if any) hits the next DBAPI-level operation on the current connection
Fire(s, f) == IF s.cur \in s.deadc THEN "disc" ELSE f
\* Connection._handle_dbapi_exception for a fired fault k.  `intx` = in_transaction() at the time of the error: when the error
\* is not (classified as) a disconnect and no transaction is active, the handler itself calls _rollback_impl(): on a healthy
\* connection that rolls the database back; on a dead one the nested failure marks the connection as disconnected after all
\* (the listeners are not consulted for the re-entrant error) and it is invalidated.
HandleErr(s, k, intx) ==
  LET s1 == IF k = "disc" THEN [DbLost(s) EXCEPT !.deadc = @ \cup {s.cur}] ELSE s
      s2 == [s1 EXCEPT !.nfault = IF s.cur \in s.deadc THEN @ ELSE @ + 1]
      Invalidated(z) == [DbLost(z) EXCEPT !.inv = TRUE, !.open = @ \ {s.cur},
                                          !.stale = IF PoolInv THEN s.open \ {s.cur} ELSE @,
                                          !.idle = Append(@, 0), !.cur = 0]
  IN IF IsDisc(k) THEN Invalidated(s2)
     ELSE IF ~intx THEN (IF s2.cur \in s2.deadc THEN Invalidated(s2) ELSE DbRollback(s2))
     ELSE s2
Op(s, f) == LET k == Fire(s, f) IN IF k = "none" THEN [st |-> s, k |-> "ok"]
                                   ELSE [st |-> HandleErr(s, k, s.root # 0 /\ s.h[s.root].active), k |-> k]
\* pool checkout used by the transparent reconnect.  When the record at the head of the queue needs a NEW DBAPI connection
\* (it has none, or its connection is older than the last pool invalidation) the connect itself is a DBAPI-level operation an
\* armed fault can hit: the record goes back to the pool without a connection and the Connection stays invalidated.
NeedsConnect(s) == Head(s.idle) = 0 \/ Head(s.idle) \in s.stale
Reconnect(s) ==
  LET r == Head(s.idle)
      fresh == s.nconn + 1
  IN IF r = 0 THEN [s EXCEPT !.idle = Tail(@), !.cur = fresh, !.nconn = fresh, !.open = @ \cup {fresh}, !.inv = FALSE]
     ELSE IF r \in s.stale
          THEN [s EXCEPT !.idle = Tail(@), !.cur = fresh, !.nconn = fresh, !.open = (@ \ {r}) \cup {fresh}, !.inv = FALSE,
                         !.stale = @ \ {r}]
          ELSE [s EXCEPT !.idle = Tail(@), !.cur = r, !.inv = FALSE]
ConnectFailed(s) ==
  LET r == Head(s.idle)
  IN [s EXCEPT !.idle = Append(Tail(@), 0), !.open = @ \ {r}, !.stale = @ \ {r}, !.nfault = @ + 1]
\* Connection.connection / _revalidate_connection under armed fault f.
\*   err = "none": proceed with .st (.used = TRUE when the fault was consumed by a failed... never together with "none")
\*   err # "none": the call raises err
Reval(s, f) == IF ~s.inv THEN [st |-> s, err |-> "none"]
               ELSE IF s.root # NoH THEN [st |-> s, err |-> "PendingRollbackError"]
               ELSE IF f # "none" /\ NeedsConnect(s) THEN [st |-> ConnectFailed(s), err |-> ExcName(f)]
               ELSE [st |-> Reconnect(s), err |-> "none"]
\* ---------- mechanism ----------
Active(s, x) == x # NoH /\ s.h[x].active
InTx(s) == Active(s, s.root)
InNested(s) == Active(s, s.nested)
Guard(s) == (s.root # NoH /\ ~s.h[s.root].active) \/ (s.nested # NoH /\ ~s.h[s.nested].active)
SetInactive(s, x) == [s EXCEPT !.h[x].active = FALSE]
RECURSIVE Cancel(_, _)
Cancel(s, x) == IF x = NoH THEN s
                ELSE LET s1 == SetInactive(s, x)
                         s2 == IF s1.nested = x THEN [s1 EXCEPT !.nested = s1.h[x].prev] ELSE s1
                     IN Cancel(s2, s.h[x].prev)
NewRoot(s) == LET id == Len(s.h) + 1 IN [s EXCEPT !.h = Append(@, HRec("root", 0, NoH)), !.root = id]
\* begin() / autobegin: RootTransaction.__init__ -> _begin_impl evaluates self.connection (reconnects when invalidated and no
\* transaction is attached); do_begin itself is a no-op at the DBAPI level
DoBegin(s, f) == IF s.closed THEN R(s, "ResourceClosedError")
              ELSE IF s.root = NoH THEN (LET rv == Reval(s, f) IN IF rv.err # "none" THEN R(rv.st, rv.err) ELSE R(NewRoot(rv.st), "ok"))
              ELSE R(s, "InvalidRequestError")
\* autobegin on a connection that is known to be valid (Reval already done by the caller)
Auto(s) == IF s.root = NoH THEN NewRoot(s) ELSE s
DoNested(s, f) ==
   IF s.closed THEN R(s, "ResourceClosedError")
   \* begin_nested(): autobegin (-> _begin_impl evaluates self.connection: reconnect, possibly failing) comes first
   ELSE LET rv0 == IF s.root = NoH THEN Reval(s, f) ELSE [st |-> s, err |-> "none"] IN
        IF rv0.err # "none" THEN R(rv0.st, rv0.err)
        ELSE LET s0 == Auto(rv0.st) rv == Reval(s0, "none") IN
        IF rv.err # "none" THEN R(s0, rv.err)
        ELSE IF Guard(s0) THEN R(s0, "PendingRollbackError")
        ELSE LET n == s0.spseq + 1 id == Len(s0.h) + 1
                 o == Op([s0 EXCEPT !.spseq = n], f)
             IN IF o.k # "ok" THEN R(o.st, ExcName(o.k))
                ELSE LET s1 == DbSavepoint(o.st, n)
                     IN R([s1 EXCEPT !.h = Append(@, HRec("sp", n, s0.nested)), !.nested = id], "ok")
DoExec(s, f) ==
   IF s.closed THEN R(s, "ResourceClosedError")
   ELSE LET rv == Reval(s, f) IN
        IF rv.err # "none" THEN R(rv.st, rv.err)
        \* _execute_context: the inactive-transaction guard runs BEFORE autobegin
        ELSE IF Guard(rv.st) THEN R(rv.st, "PendingRollbackError")
        ELSE LET s0 == Auto(rv.st) IN
             LET o == Op(s0, f) IN
                  IF o.k # "ok" THEN R(o.st, ExcName(o.k))
                  ELSE LET k == s0.nrow + 1 IN
                       R([o.st EXCEPT !.nrow = k, !.dbtx[Len(o.st.dbtx)] = @ \cup {k},
                                      !.rowh = Append(@, s0.nested), !.pend = @ \cup {k}], "ok")
\* RootTransaction._close_impl: try { if active: rollback; if nested: nested._cancel() } finally { deactivate; detach }
\* -> when the DBAPI rollback raises, the nested handles are NOT cancelled (named deviation FailedRollbackKeepsNested)
RootCloseImpl(s, x, tryDeact, f) ==
   LET act == s.h[x].active
       \* inactive-but-attached = a root whose commit() failed: ROLLBACK is emitted for it too (fix e8b3b85; before it the
       \* database transaction leaked into the next commit - found by RefAgree)
       doDb == (act \/ s.root = x) /\ ~s.inv /\ ~s.closed
       o == IF doDb THEN Op(s, f) ELSE [st |-> s, k |-> "ok"]
       s1 == IF doDb /\ o.k = "ok" THEN DbRollback(o.st) ELSE o.st
       s2 == IF o.k = "ok" THEN Cancel(s1, s1.nested) ELSE s1
       warn == ~act /\ tryDeact /\ s.root # x
       s3 == IF act THEN SetInactive(s2, x) ELSE s2
       s4 == IF s3.root = x THEN [s3 EXCEPT !.root = NoH] ELSE s3
       \* ghost: a root rollback()/close() that RETURNS undoes all uncommitted work in the reference, whether or not the
       \* mechanism emitted a DBAPI rollback
       s5 == IF o.k = "ok" /\ s.root = x THEN [s4 EXCEPT !.pend = {}, !.undone = {}] ELSE s4
   IN R(s5, IF o.k # "ok" THEN ExcName(o.k) ELSE IF warn THEN "ok+warn" ELSE "ok")
\* RootTransaction._do_commit: try { commit } finally { cancel nested; deactivate }; detach only on success
\* -> a failed commit leaves the root attached but inactive: everything raises PendingRollbackError until rollback()
RootCommit(s, x, f) ==
   IF s.h[x].active THEN
      LET rv == Reval(s, "none") IN
      IF rv.err # "none" THEN R(SetInactive(Cancel(s, s.nested), x), rv.err)
      ELSE LET o == Op(s, f) IN
           IF o.k = "ok" THEN LET s1 == Cancel(DbCommit(o.st), s.nested) IN R([SetInactive(s1, x) EXCEPT !.root = NoH], "ok")
           ELSE R(SetInactive(Cancel(o.st, o.st.nested), x), ExcName(o.k))
   ELSE IF s.root = x THEN R(s, "PendingRollbackError") ELSE R(s, "InvalidRequestError")
Unlink(s, x) == IF s.nested = x THEN [s EXCEPT !.nested = s.h[x].prev] ELSE s
RECURSIVE InChain(_, _, _)
InChain(s, y, x) == IF y = NoH THEN FALSE ELSE IF y = x THEN TRUE ELSE InChain(s, s.h[y].prev, x)
Kill(s, x) == [s EXCEPT !.undone = @ \cup {k \in s.pend : InChain(s, s.rowh[k], x)}]
\* NestedTransaction._close_impl; _rollback_to_savepoint_impl is skipped when the connection is invalidated
SpCloseImpl(s, x, warnFlag, f) ==
   LET w(r) == IF s.nested # x /\ warnFlag THEN r \o "+warn" ELSE r IN
   IF s.h[x].active /\ InTx(s) /\ ~s.inv THEN
      LET i == SpIndex(s, s.h[x].sp) IN
      IF Guard(s) THEN R(Unlink(SetInactive(s, x), x), w("PendingRollbackError"))
      ELSE LET o == Op(s, f) IN
           IF o.k # "ok" THEN R(Unlink(SetInactive(o.st, x), x), w(ExcName(o.k)))
           ELSE IF i = 0 THEN R(Unlink(SetInactive(s, x), x), w("OperationalError"))
           ELSE R(Unlink(SetInactive(Kill(DbRollbackTo(s, i), x), x), x), w("ok"))
   ELSE R(Unlink(SetInactive(s, x), x), w("ok"))
\* NestedTransaction._do_commit; _release_savepoint_impl has no validity check -> goes through execute -> Reval
SpCommit(s, x, f) ==
   IF s.h[x].active THEN
      \* the connect of a transparent reconnect can itself be hit by the armed fault
      LET rv == Reval(s, f) IN
      IF rv.err # "none" THEN R(SetInactive(rv.st, x), rv.err)
      ELSE IF Guard(s) THEN R(SetInactive(rv.st, x), "PendingRollbackError")
      \* RELEASE goes through Connection.execute: with no root attached (possible only after a failed rollback kept the
      \* savepoint handle alive) it reconnects if necessary and AUTOBEGINS a new root first
      ELSE LET sa == Auto(rv.st) o == Op(sa, f) i == SpIndex(sa, sa.h[x].sp) IN
           IF o.k # "ok" THEN R(SetInactive(o.st, x), ExcName(o.k))
           ELSE IF i = 0 THEN R(SetInactive(sa, x), "OperationalError")
           ELSE LET s1 == SetInactive(DbRelease(sa, i), x) IN
                IF s.nested = x THEN R([s1 EXCEPT !.nested = s.h[x].prev], "ok") ELSE R(s1, "ok+warn")
   ELSE IF s.nested = x THEN R(s, "PendingRollbackError") ELSE R(s, "InvalidRequestError")
HOp(s, x, op, f) == IF s.h[x].kind = "root"
                 THEN CASE op = "commit" -> RootCommit(s, x, f) [] op = "rollback" -> RootCloseImpl(s, x, TRUE, f)
                        [] OTHER -> RootCloseImpl(s, x, FALSE, f)
                 ELSE CASE op = "commit" -> SpCommit(s, x, f) [] op = "rollback" -> SpCloseImpl(s, x, TRUE, f)
                        [] OTHER -> SpCloseImpl(s, x, FALSE, f)
DoConnCommit(s, f) == IF s.root # NoH THEN HOp(s, s.root, "commit", f) ELSE R(s, "ok")
DoConnRollback(s, f) == IF s.root # NoH THEN HOp(s, s.root, "rollback", f) ELSE R(s, "ok")
\* Connection.close(): close the root (rollback), return the DBAPI connection to the pool (reset = rollback on the DBAPI connection)
DoClose(s) == LET s1 == IF s.root # NoH THEN HOp(s, s.root, "close", "none").st ELSE s
                  s2 == IF s1.inv THEN s1 ELSE [DbRollback(s1) EXCEPT !.idle = Append(@, s1.cur), !.cur = 0]
              IN R([s2 EXCEPT !.closed = TRUE, !.inv = FALSE], "ok")
\* ---------- actions ----------
Step(name, arg, f, res) == st' = res.st /\ last' = [a |-> name, arg |-> arg, f |-> f, ret |-> res.ret]
Open == ~st.closed
FaultChoice == {"none"} \cup (IF st.nfault < MaxFaults /\ st.cur \notin st.deadc THEN Faults ELSE {})
Begin == Open /\ Len(st.h) < MaxH /\ \E f \in (IF st.inv THEN FaultChoice ELSE {"none"}) : Step("Begin", 0, f, DoBegin(st, f))
BeginNested == Open /\ Len(st.h) + 1 < MaxH /\ \E f \in FaultChoice : Step("BeginNested", 0, f, DoNested(st, f))
Exec == Open /\ st.nrow < MaxRows /\ Len(st.h) < MaxH /\ \E f \in FaultChoice : Step("Exec", 0, f, DoExec(st, f))
ConnCommit == Open /\ \E f \in FaultChoice : Step("ConnCommit", 0, f, DoConnCommit(st, f))
ConnRollback == Open /\ \E f \in FaultChoice : Step("ConnRollback", 0, f, DoConnRollback(st, f))
HandleOp == Open /\ Len(st.h) < MaxH /\ \E x \in 1..Len(st.h), op \in {"commit", "rollback", "close"}, f \in FaultChoice :
               Step("H_" \o op, x, f, HOp(st, x, op, f))
\* no Close while the current DBAPI connection is dead but not recognised as such (listener "undisc"): the pool's reset-on-return
\* failure path belongs to C26
Close == Open /\ st.cur \notin st.deadc /\ Step("Close", 0, "none", DoClose(st))
Init == st = InitSt /\ last = [a |-> "init", arg |-> 0, f |-> "none", ret |-> "ok"]
Next == Begin \/ BeginNested \/ Exec \/ ConnCommit \/ ConnRollback \/ HandleOp \/ Close
Spec == Init /\ [][Next]_vars
View == st
Depth == TLCGet("level") <= MaxDepth /\ st.nconn < 6
Obs(s) == [intx |-> ~s.closed /\ InTx(s), innested |-> ~s.closed /\ InNested(s), closed |-> s.closed, committed |-> s.committed,
           inv |-> s.inv, cur |-> s.cur, open |-> s.open]
Emit == PrintT(ToJson([from |-> st, act |-> last', to |-> st', obs |-> Obs(st')]))
InitEmit == Init /\ PrintT(ToJson([init |-> st]))
\* ---------- properties (C27) ----------
Fired == last.ret \in {"ProgrammingError", "OperationalError"} /\ last.f # "none"
\* 1. a statement failing with a disconnect invalidates the Connection
DisconnectInvalidates == [][ (last'.f \in {"disc", "err"} /\ last'.ret = ExcName(last'.f) /\ IsDisc(last'.f) /\ ~st.inv) => st'.inv ]_vars
\* 2. pooled connections opened before the failure are not reused: whatever DBAPI connection the Connection holds after a disconnect
\*    (with pool invalidation on) was opened after it
NoStaleReuse == st.cur # 0 => st.cur \notin st.stale
\* 3. if a transaction was in progress, further use raises until rollback(): while invalidated with a transaction attached,
\*    nothing is executed and nothing can be committed
BlockedUntilRollback == [][ (st.inv /\ st.root # NoH /\ last'.a \in {"Exec", "BeginNested", "ConnCommit", "H_commit"})
                              => (last'.ret \notin {"ok", "ok+warn"} /\ st'.committed = st.committed /\ st'.nrow = st.nrow) ]_vars
\* 4. afterwards the Connection transparently reconnects: invalidated and no transaction attached => the next Exec succeeds on a
\*    live connection
TransparentReconnect == [][ (st.inv /\ st.root = NoH /\ ~Guard(st) /\ last'.a = "Exec" /\ last'.f = "none")
                              => (last'.ret = "ok" /\ ~st'.inv /\ st'.cur \in st'.open /\ st'.cur \notin st'.deadc) ]_vars
\* 5. errors not classified as disconnects leave the pool untouched
NonDisconnectLeavesPool == [][ (last'.ret \in {"OperationalError", "ProgrammingError"} /\ last'.f # "none" /\ ~IsDisc(last'.f)
                                  /\ st.cur \notin st.deadc /\ ~st.inv)      \* (~inv: the error hit an established connection, not a reconnect)
                                 => (st'.idle = st.idle /\ st'.open = st.open /\ st'.stale = st.stale /\ st'.cur = st.cur /\ st'.inv = st.inv) ]_vars
\* sanity: the connection in use is open; nothing lost from / invented in the committed set
CurOpen == st.cur # 0 => st.cur \in st.open
NothingLost == st.committed \subseteq 1..st.nrow
\* reference nested-transaction semantics still hold under faults (C23 under fault sequences)
RefAgree == st.committed = st.refc
\* in_nested_transaction() implies in_transaction()
FlagsConsistent == InNested(st) => InTx(st)
=============================================================================
