---------------------------- MODULE Scoped ----------------------------
(* C52: scoped_session gives each scope its own session - under any thread interleaving.

   Mechanism layer = orm/scoping.py (scoped_session.__call__ / _proxied / remove) over util/_collections.py
   (ScopedRegistry: a dict keyed by scopefunc();  ThreadLocalRegistry: one threading.local slot per thread), split at
   every access to the shared registry (the grain at which threads can interleave):

     call / proxied attribute or method / proxied close()      registry():  Read -> [miss: Create -> SetDef] -> (Close) -> Ret
          ScopedRegistry.__call__      return self.registry[key]  /  except KeyError: return self.registry.setdefault(key, self.createfunc())
          ThreadLocalRegistry.__call__ return self.registry.value /  except AttributeError: val = self.registry.value = self.createfunc()
     call with keyword arguments                               KHas -> [present: raise InvalidRequestError] | KCreate -> KSet -> Ret
          scoped_session.__call__      if self.registry.has(): raise ...  else: sess = self.session_factory(**kw); self.registry.set(sess)
          KwAtomic = FALSE follows that code: has() and set() are two steps, set() overwrites (NAMED DEVIATION: two threads of ONE
          scope can both pass has(), both create, and the later set() replaces the earlier session - KSet).
          KwAtomic = TRUE is the repaired form (proposed_fixes/C52-*): set-if-absent in one step; the loser closes the session it
          created and raises InvalidRequestError (KSet -> KClose).
     remove()                                                  RHas -> [present: Read .. -> Close] -> Clear -> Ret
          if self.registry.has(): self.registry().close()   ;   self.registry.clear()

   Sessions are numbered in creation order (R.n); R.reg[s] is the registry entry of scope s (0 = none); R.closed the sessions on
   which close() was called.  A configuration K fixes the registry kind and the thread -> scope map (thread-local: scope = thread).
   Threads of a scope that is SHARED by several threads only run the operations in SharedOps (the property is stated for calls
   and proxied methods there; remove() racing with another thread of the same scope has no defined meaning - see notes/C52.md).

   Abstract layer (H): owner[i] = scope of the thread that created session i; ever[s] = sessions ever handed to scope s;
   cur[s] = sessions handed to scope s since its last remove(); closedBy = {<<session, scope of the closing thread>>}. *)
EXTENDS Integers, Sequences, FiniteSets, TLC, Json
CONSTANTS Threads,       \* e.g. {1, 2, 3}
          Kinds,         \* subset of {"scoped", "tlocal"}: ScopedRegistry (scopefunc) / ThreadLocalRegistry
          ScopeCodes,    \* thread -> scope maps of the "scoped" kind, one decimal digit per thread: 21 = thread 1 -> scope 1, thread 2 -> scope 2;
                         \* 11 = both threads share scope 1; 211 = threads 1, 2 share scope 1, thread 3 has scope 2 (cfg files have no tuples)
          OpSet,         \* operations of threads that have their scope for themselves
          SharedOps,     \* operations of threads sharing their scope with another thread
          MaxOps,        \* operations per thread
          KwAtomic       \* FALSE: has()/set() of the keyword call are separate steps (the code); TRUE: repaired form
VARIABLES K, R, T, H, last
vars == <<K, R, T, H, last>>
Scopes == 1..Cardinality(Threads)
Idle == [pc |-> "idle", op |-> "-", tmp |-> 0, new |-> 0, res |-> "-", left |-> MaxOps]
R0 == [reg |-> [s \in Scopes |-> 0], n |-> 0, closed |-> {}]
T0 == [t \in Threads |-> Idle]
H0 == [owner |-> << >>, ever |-> [s \in Scopes |-> {}], cur |-> [s \in Scopes |-> {}], closedBy |-> {}]
ScopeOf(t) == K.sc[t]
Shared(s) == Cardinality({t \in Threads : K.sc[t] = s}) > 1
ReadOps == {"call", "proxy", "pclose"}
\* where a thread goes once registry() has produced T[t].tmp
AfterGet(op) == IF op \in {"pclose", "remove"} THEN "close" ELSE "ret"
Act(a, t) == last' = [a |-> a, t |-> t, op |-> T'[t].op, ret |-> "-"]
Upd(t, f) == T' = [T EXCEPT ![t] = f]
\* ---------------------------------------------------------------- actions (one per access to shared state)
Start(t, op) ==
   /\ T[t].pc = "idle" /\ T[t].left > 0
   /\ op \in (IF Shared(ScopeOf(t)) THEN SharedOps ELSE OpSet)
   /\ Upd(t, [T[t] EXCEPT !.op = op, !.tmp = 0, !.new = 0, !.res = "-",
                          !.pc = IF op \in ReadOps THEN "read" ELSE IF op = "callkw" THEN "khas" ELSE "rhas"])
   /\ UNCHANGED <<K, R, H>> /\ Act("Start", t)
\* registry(): the lookup
Read(t) == LET s == ScopeOf(t)  v == R.reg[s] IN
   /\ T[t].pc = "read"
   /\ Upd(t, IF v # 0 THEN [T[t] EXCEPT !.tmp = v, !.pc = AfterGet(T[t].op)] ELSE [T[t] EXCEPT !.pc = "create"])
   /\ UNCHANGED <<K, R, H>> /\ Act("Read", t)
\* createfunc() / session_factory(**kw): a new Session, numbered in creation order
Create(t) ==
   /\ T[t].pc \in {"create", "kcreate"}
   /\ R' = [R EXCEPT !.n = @ + 1]
   /\ H' = [H EXCEPT !.owner = Append(@, ScopeOf(t))]
   /\ Upd(t, [T[t] EXCEPT !.new = R.n + 1, !.pc = IF T[t].pc = "create" THEN "setdef" ELSE "kset"])
   /\ UNCHANGED K /\ Act("Create", t)
\* dict.setdefault (atomic: keeps an entry another thread of the scope stored meanwhile) / thread-local assignment
SetDef(t) == LET s == ScopeOf(t)
                 v == IF K.kind = "scoped" /\ R.reg[s] # 0 THEN R.reg[s] ELSE T[t].new IN
   /\ T[t].pc = "setdef"
   /\ R' = [R EXCEPT !.reg[s] = v]
   /\ Upd(t, [T[t] EXCEPT !.tmp = v, !.pc = AfterGet(T[t].op)])
   /\ UNCHANGED <<K, H>> /\ Act("SetDef", t)
\* keyword call: registry.has()
KHas(t) ==
   /\ T[t].pc = "khas"
   /\ Upd(t, IF R.reg[ScopeOf(t)] # 0 THEN [T[t] EXCEPT !.res = "InvalidRequestError", !.pc = "ret"] ELSE [T[t] EXCEPT !.pc = "kcreate"])
   /\ UNCHANGED <<K, R, H>> /\ Act("KHas", t)
\* keyword call: registry.set(sess)
KSet(t) == LET s == ScopeOf(t) IN
   /\ T[t].pc = "kset"
   /\ IF KwAtomic /\ R.reg[s] # 0
      THEN /\ UNCHANGED R
           /\ Upd(t, [T[t] EXCEPT !.pc = "kclose"])
      ELSE /\ R' = [R EXCEPT !.reg[s] = T[t].new]           \* overwrites whatever another thread of the scope stored (deviation when ~KwAtomic)
           /\ Upd(t, [T[t] EXCEPT !.tmp = T[t].new, !.pc = "ret"])
   /\ UNCHANGED <<K, H>> /\ Act("KSet", t)
\* repaired keyword call only: the loser closes the session it created, then raises
KClose(t) ==
   /\ T[t].pc = "kclose"
   /\ R' = [R EXCEPT !.closed = @ \cup {T[t].new}]
   /\ H' = [H EXCEPT !.closedBy = @ \cup {<<T[t].new, ScopeOf(t)>>}]
   /\ Upd(t, [T[t] EXCEPT !.res = "InvalidRequestError", !.pc = "ret"])
   /\ UNCHANGED K /\ Act("KClose", t)
\* remove(): registry.has()
RHas(t) ==
   /\ T[t].pc = "rhas"
   /\ Upd(t, [T[t] EXCEPT !.pc = IF R.reg[ScopeOf(t)] # 0 THEN "read" ELSE "clear"])
   /\ UNCHANGED <<K, R, H>> /\ Act("RHas", t)
\* Session.close() on the session registry() produced (remove(), proxied close())
Close(t) ==
   /\ T[t].pc = "close"
   /\ R' = [R EXCEPT !.closed = @ \cup {T[t].tmp}]
   /\ H' = [H EXCEPT !.closedBy = @ \cup {<<T[t].tmp, ScopeOf(t)>>}]
   /\ Upd(t, [T[t] EXCEPT !.pc = IF T[t].op = "remove" THEN "clear" ELSE "ret"])
   /\ UNCHANGED K /\ Act("Close", t)
\* remove(): registry.clear()
Clear(t) == LET s == ScopeOf(t) IN
   /\ T[t].pc = "clear"
   /\ R' = [R EXCEPT !.reg[s] = 0]
   /\ H' = [H EXCEPT !.cur[s] = {}]
   /\ Upd(t, [T[t] EXCEPT !.res = "ok", !.pc = "ret"])
   /\ UNCHANGED K /\ Act("Clear", t)
\* the operation returns to the caller: a Session (its number), "ok" (remove) or an exception class
Handed(t) == T[t].op # "remove" /\ T[t].res = "-"
RetVal(t) == IF Handed(t) THEN ToString(T[t].tmp) ELSE T[t].res
Ret(t) == LET s == ScopeOf(t) IN
   /\ T[t].pc = "ret"
   /\ H' = IF Handed(t) THEN [H EXCEPT !.ever[s] = @ \cup {T[t].tmp}, !.cur[s] = @ \cup {T[t].tmp}] ELSE H
   /\ Upd(t, [T[t] EXCEPT !.pc = "idle", !.left = @ - 1, !.tmp = 0, !.new = 0, !.res = "-"])
   /\ UNCHANGED <<K, R>>
   /\ last' = [a |-> "Ret", t |-> t, op |-> T[t].op, ret |-> RetVal(t)]
\* every step of t inside an operation (all but Start and Ret)
Internal(t) == Read(t) \/ Create(t) \/ SetDef(t) \/ KHas(t) \/ KSet(t) \/ KClose(t) \/ RHas(t) \/ Close(t) \/ Clear(t)
InitWith(k) == K = k /\ R = R0 /\ T = T0 /\ H = H0 /\ last = [a |-> "init", t |-> 0, op |-> "-", ret |-> "-"]
Pow10(i) == IF i = 0 THEN 1 ELSE IF i = 1 THEN 10 ELSE IF i = 2 THEN 100 ELSE 1000
MapOf(code) == [t \in Threads |-> (code \div Pow10(t - 1)) % 10]
Configs == {[kind |-> "scoped", sc |-> MapOf(c)] : c \in (IF "scoped" \in Kinds THEN ScopeCodes ELSE {})}
           \cup {[kind |-> "tlocal", sc |-> [t \in Threads |-> t]] : x \in (IF "tlocal" \in Kinds THEN {1} ELSE {})}
Init == \E k \in Configs : InitWith(k)
Next == \E t \in Threads : (\E op \in OpSet \cup SharedOps : Start(t, op)) \/ Internal(t) \/ Ret(t)
Spec == Init /\ [][Next]_vars
View == <<K, R, T, H>>
St == [K |-> K, R |-> R, T |-> T, H |-> H]
Emit == PrintT(ToJson([from |-> St, act |-> last', to |-> St']))
InitEmit == Init /\ PrintT(ToJson([init |-> St]))
\* ---------------------------------------------------------------- properties (C52)
TypeOK == /\ R.n = Len(H.owner) /\ R.closed \subseteq 1..R.n
          /\ \A s \in Scopes : R.reg[s] \in 0..R.n
\* "returns the same Session for repeated calls within one scope": between two remove()s of a scope all calls / proxied
\* operations of its threads were handed ONE session
SameScopeOneSession == \A s \in Scopes : Cardinality(H.cur[s]) <= 1
\* "different Sessions for different scopes": no session is ever handed to two scopes; registry entries belong to the scope that made them
ScopesDisjoint == \A s1, s2 \in Scopes : s1 # s2 => H.ever[s1] \cap H.ever[s2] = {}
RegistryOwned == \A s \in Scopes : R.reg[s] # 0 => H.owner[R.reg[s]] = s
\* what a call hands out is the scope's registry entry (not an orphan) at the moment it returns
ReturnedIsRegistered == [][ \A t \in Threads : (last'.a = "Ret" /\ last'.t = t /\ Handed(t)) => R.reg[ScopeOf(t)] = T[t].tmp ]_vars
\* "remove() closes and discards only the current scope's Session": no step of a thread changes another scope's registry entry,
\* a session is closed only by a thread of the scope that owns it ...
OtherScopesUntouched == [][ \A s \in Scopes : R'.reg[s] # R.reg[s] => (last'.t \in Threads /\ ScopeOf(last'.t) = s) ]_vars
ClosedOnlyByOwnScope == \A p \in H.closedBy : H.owner[p[1]] = p[2]
ClosedAccounted == R.closed = {p[1] : p \in H.closedBy}
\* ... and when remove() clears, the scope's entry is gone and everything handed out in the scope since the last remove() is closed
RemoveClosesAndDiscards ==
   [][ \A t \in Threads : (last'.a = "Clear" /\ last'.t = t)
          => (R'.reg[ScopeOf(t)] = 0 /\ H.cur[ScopeOf(t)] \subseteq R.closed /\ (R.reg[ScopeOf(t)] # 0 => R.reg[ScopeOf(t)] \in R.closed)) ]_vars
\* a session handed out and not removed since is open unless its own scope closed it (remove or proxied close)
HandedStaysOpen == \A s \in Scopes : \A i \in H.cur[s] : i \in R.closed => <<i, s>> \in H.closedBy
\* after remove() the next call of the scope gets a NEW session (sessions are never re-registered)
NeverReRegistered == [][ \A s \in Scopes : (R'.reg[s] # R.reg[s] /\ R'.reg[s] # 0) => R'.reg[s] \notin UNION {H.ever[x] : x \in Scopes} ]_vars
=============================================================================
