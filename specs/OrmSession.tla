---------------------------- MODULE OrmSession ----------------------------
(* Mechanism layer of orm/session.py + state.py + identity.py + persistence.py for one mapped class T(id pk, v),
   transcribed from the validated mirror (DESIGN Appendix F / F.2) and grown by conformance replay against the real
   Session (notes/OrmSession.md).  One record `st` is the whole state; every operation is a pure function
   st -> [st, ret]; the lifecycle events and the number of SQL statements of the step travel in st.ev / st.sql, which the
   VIEW hides.  The database part (work / frame snapshots / committed) is the reference nested-transaction database,
   and `gd`/`refc` is an abstract nested-transaction reference over the USER's calls (ghost, like ConnTxn's).
   Named deviations from the documented behaviour are switched by the constant set Dev (probed on the real code by the
   checks): every one of them is exposed by an abstract-property invariant below and listed in known_findings.d. *)
EXTENDS Integers, Sequences, FiniteSets, TLC, Json
CONSTANTS Objs,        \* model objects, strings "o1".."o3"
          Keys,        \* primary key values, 1..2
          Vals,        \* attribute values, 0..1
          MaxSp,       \* savepoint depth
          MaxDepth,    \* bound on TLCGet("level")
          Eoc,         \* Session(expire_on_commit=...)
          Acts,        \* enabled action groups (per-property cfgs)
          Start,       \* "empty": all objects transient, no rows; "committed": o1 was added and committed before the walk starts
          Dev          \* named deviations the real code shows (probed): subset of DevAll
VARIABLES st, last
vars == <<st, last>>
DevAll == {"a", "b", "c", "d", "e", "f2", "g", "h", "gsw", "rsw2", "eoc", "ksw", "kswx", "kswmerge"}
Absent == -1          \* no row / attribute not loaded (NO_VALUE)
NoHist == -2          \* no committed_state entry
NoObj == "none"
NoKey == 0
BothAttrs == {"id", "v"}
States == {"transient", "pending", "persistent", "deleted", "detached"}
Range(s) == {s[i] : i \in 1..Len(s)}
NoSw == [o \in Objs |-> NoKey]
Frame(snap, nested) == [snap |-> snap, new |-> {}, dirty |-> {}, deleted |-> {}, ksw |-> NoSw, nested |-> nested]
EmptyDb == [k \in Keys |-> Absent]
InitPk == [o \in Objs |-> IF o = "o2" THEN 2 ELSE 1]
InitSt == [life |-> [o \in Objs |-> "transient"], pk |-> InitPk, v |-> [o \in Objs |-> 0], key |-> [o \in Objs |-> NoKey],
           exp |-> [o \in Objs |-> {}],           \* attributes NOT present in state.dict
           mod |-> [o \in Objs |-> TRUE],         \* InstanceState.modified (a constructed object is modified)
           cv |-> [o \in Objs |-> Absent],        \* committed_state entry of v: NoHist | Absent (NO_VALUE) | value
           wasdel |-> [o \in Objs |-> FALSE],     \* InstanceState._deleted
           new |-> <<>>, imap |-> [k \in Keys |-> NoObj], sdel |-> {}, tx |-> <<>>, work |-> EmptyDb, committed |-> EmptyDb,
           needrb |-> FALSE,
           untr |-> {},         \* ghost: objects re-attached from the detached state with loaded (possibly stale) attribute values
           taint |-> FALSE,     \* set by the misuse Delete(o) of an already deleted object (deviation c); exploration stops there
           \* ghost: nested-transaction reference over the user's calls: refc = committed rows, gd = one delta per open level
           refc |-> EmptyDb, gd |-> <<>>,
           \* outputs of the step (hidden by the VIEW): lifecycle events <<name, object, count>> and number of SQL statements
           ev |-> {}, sql |-> 0]
R(s, r) == [st |-> s, ret |-> r]
Ev(s, name, o) == IF <<name, o, 1>> \in s.ev THEN [s EXCEPT !.ev = (@ \ {<<name, o, 1>>}) \cup {<<name, o, 2>>}]
                  ELSE [s EXCEPT !.ev = @ \cup {<<name, o, 1>>}]
RECURSIVE EvAll(_, _, _)
EvAll(s, name, S) == IF S = {} THEN s ELSE LET o == CHOOSE x \in S : TRUE IN EvAll(Ev(s, name, o), name, S \ {o})
Sql(s, n) == [s EXCEPT !.sql = @ + n]
AutoBegin(s) == IF s.tx = <<>> THEN [s EXCEPT !.tx = <<Frame(s.work, FALSE)>>, !.gd = <<[k \in Keys |-> NoHist]>>] ELSE s
RemoveSeq(q, o) == SelectSeq(q, LAMBDA x : x # o)
InMapS(s, o) == s.key[o] # NoKey /\ s.imap[s.key[o]] = o
ImapDel(s, o) == IF InMapS(s, o) THEN [s EXCEPT !.imap[s.key[o]] = NoObj] ELSE s
Top(s) == s.tx[Len(s.tx)]
Expired(s, o) == s.exp[o] # {}
\* state._expire(): everything unloaded, history gone
ExpireObj(s, o) == [s EXCEPT !.exp[o] = BothAttrs, !.mod[o] = FALSE, !.cv[o] = NoHist, !.v[o] = 0, !.pk[o] = s.key[o], !.untr = @ \ {o}]
RECURSIVE ExpireSet(_, _)
ExpireSet(s, S) == IF S = {} THEN s ELSE LET o == CHOOSE x \in S : TRUE IN ExpireSet(ExpireObj(s, o), S \ {o})
\* load of the expired, unmodified attributes from the transaction's view (row must exist)
LoadObj(s, o) == [s EXCEPT !.v[o] = IF "v" \in s.exp[o] THEN s.work[s.key[o]] ELSE @,
                           !.pk[o] = IF "id" \in s.exp[o] THEN s.key[o] ELSE @, !.exp[o] = {}]
\* state._load_expired: the attribute set to load (A = what was expired and unmodified when the call began) is fixed BEFORE the
\* autoflush runs; whatever the flush loaded meanwhile is loaded again from the row as it is afterwards
LoadAttrs(s, o, A) == [s EXCEPT !.v[o] = IF "v" \in A \cup s.exp[o] THEN s.work[s.key[o]] ELSE @,
                                !.pk[o] = IF "id" \in A \cup s.exp[o] THEN s.key[o] ELSE @, !.exp[o] = {}]
\* ------------------------------------------------------------------ ghost reference (user level)
GApply(base, d) == [k \in Keys |-> IF d[k] = NoHist THEN base[k] ELSE d[k]]
RECURSIVE GViewUpTo(_, _)
GViewUpTo(s, n) == IF n = 0 THEN s.refc ELSE GApply(GViewUpTo(s, n - 1), s.gd[n])
GView(s) == GViewUpTo(s, Len(s.gd))
GWrite(s, w) == \* a successful flush wrote view w in the innermost level
  IF s.gd = <<>> THEN s
  ELSE LET below == GViewUpTo(s, Len(s.gd) - 1)
       IN [s EXCEPT !.gd[Len(s.gd)] = [k \in Keys |-> IF w[k] = below[k] THEN NoHist ELSE w[k]]]
GPush(s) == [s EXCEPT !.gd = Append(@, [k \in Keys |-> NoHist])]
GPopDiscard(s) == [s EXCEPT !.gd = SubSeq(@, 1, Len(@) - 1)]
GClearTop(s) == IF s.gd = <<>> THEN s ELSE [s EXCEPT !.gd[Len(s.gd)] = [k \in Keys |-> NoHist]]
GPopMerge(s) == LET n == Len(s.gd) v == GView(s) s1 == [s EXCEPT !.gd = SubSeq(@, 1, n - 1)] IN GWrite(s1, v)
GCommit(s) == [s EXCEPT !.refc = GView(s), !.gd = <<>>]
GAbort(s) == [s EXCEPT !.gd = <<>>]
\* ------------------------------------------------------------------ add / set / delete / expunge
DoAdd(s, o) ==
  CASE s.life[o] = "transient" -> R(Ev([AutoBegin(s) EXCEPT !.life[o] = "pending", !.new = Append(@, o)], "transient_to_pending", o), "ok")
    [] s.life[o] \in {"pending", "persistent"} -> R([AutoBegin(s) EXCEPT !.sdel = @ \ {o}], "ok")
    [] s.life[o] = "deleted" -> R(s, "InvalidRequestError")
    [] OTHER -> \* detached
       IF s.wasdel[o] THEN R(s, "InvalidRequestError")
       ELSE LET s0 == AutoBegin(s) IN
            IF s0.imap[s0.key[o]] \notin {NoObj, o} THEN R(s0, "InvalidRequestError")
            ELSE R(Ev([s0 EXCEPT !.life[o] = "persistent", !.imap[s0.key[o]] = o, !.untr = IF s.exp[o] = BothAttrs THEN @ ELSE @ \cup {o}],
                      "detached_to_persistent", o), "ok")
Attached(s, o) == s.life[o] \in {"pending", "persistent", "deleted"}
DoSetV(s, o, x) == LET s0 == IF Attached(s, o) THEN AutoBegin(s) ELSE s
                   IN R([s0 EXCEPT !.v[o] = x, !.mod[o] = TRUE, !.exp[o] = @ \ {"v"},
                                   !.cv[o] = IF @ # NoHist THEN @ ELSE IF "v" \in s.exp[o] THEN Absent ELSE s.v[o]], "ok")
DoDelete(s, o) ==
  CASE s.life[o] \in {"transient", "pending"} -> R(s, "InvalidRequestError")
    [] s.life[o] \in {"detached", "deleted"} /\ s.wasdel[o] /\ "c" \notin Dev -> R(s, "InvalidRequestError")   \* what add() does ("has been deleted")
    [] s.life[o] = "detached" ->
       LET s0 == AutoBegin(s) IN
       IF s0.imap[s0.key[o]] \notin {NoObj, o} THEN R(s0, "InvalidRequestError")
       ELSE R(Ev([s0 EXCEPT !.life[o] = IF s.wasdel[o] THEN "deleted" ELSE "persistent", !.imap[s0.key[o]] = o, !.sdel = @ \cup {o},
                            !.taint = s.wasdel[o], !.untr = IF s.exp[o] = BothAttrs THEN @ ELSE @ \cup {o}],     \* deviation c when wasdel
                 "detached_to_persistent", o), "ok")
    [] s.life[o] = "deleted" ->
       LET s0 == AutoBegin(s) IN
       IF o \in s0.sdel THEN R(s0, "ok")
       ELSE IF s0.imap[s0.key[o]] \notin {NoObj, o} THEN R(s0, "InvalidRequestError")
       ELSE R([s0 EXCEPT !.imap[s0.key[o]] = o, !.sdel = @ \cup {o}, !.taint = TRUE], "ok")         \* deviation c: back into the identity map
    [] OTHER -> R([AutoBegin(s) EXCEPT !.sdel = @ \cup {o}], "ok")
\* deviation g: _expunge_states pops a deleted state only from the innermost transaction's snapshot
DropFromFrames(tx, o) == [i \in 1..Len(tx) |-> IF "g" \in Dev /\ i < Len(tx) THEN tx[i] ELSE [tx[i] EXCEPT !.deleted = @ \ {o}]]
\* _detach_states looks at _deleted before it looks at the missing key: a pending object that carries the stale _deleted flag of
\* deviation a leaves the session with deleted_to_detached instead of pending_to_transient
PendEv(s, o) == IF s.wasdel[o] THEN "deleted_to_detached" ELSE "pending_to_transient"
\* Session._expunge_states([o]) for an attached object (expunge, make_transient)
ExpungeOne(s, o) ==
  CASE s.life[o] = "pending" -> Ev([s EXCEPT !.new = RemoveSeq(@, o), !.life[o] = "transient"], PendEv(s, o), o)
    [] s.life[o] = "persistent" -> Ev([ImapDel(s, o) EXCEPT !.sdel = @ \ {o}, !.life[o] = "detached", !.untr = @ \ {o}], "persistent_to_detached", o)
    [] OTHER -> Ev([ImapDel(s, o) EXCEPT !.tx = DropFromFrames(@, o), !.sdel = @ \ {o}, !.life[o] = "detached", !.untr = @ \ {o}], "deleted_to_detached", o)
DoExpunge(s, o) == IF ~Attached(s, o) THEN R(s, "InvalidRequestError") ELSE R(ExpungeOne(s, o), "ok")
\* orm.make_transient(o): documented for persistent / detached objects; loaded attributes are kept, key and _deleted go
DoMakeTransient(s, o) ==
  LET s1 == IF Attached(s, o) THEN ExpungeOne(s, o) ELSE s
  IN R([s1 EXCEPT !.life[o] = "transient", !.key[o] = NoKey, !.wasdel[o] = FALSE], "ok")
\* ------------------------------------------------------------------ restore (rollback of one transaction boundary)
ToExpunge(s, f) == f.new \cup Range(s.new)
Restore1(s, f) ==      \* step 1: _expunge_states(f.new | session._new, to_transient=True), then the key switches of the frame
  LET X == ToExpunge(s, f)
      hasKey(o) == s.life[o] \in {"persistent", "deleted"} \/ (s.life[o] = "detached" /\ s.key[o] # NoKey)
      newLife(o) == IF o \in X /\ (s.life[o] = "pending" \/ hasKey(o)) THEN "transient" ELSE s.life[o]
      \* deviation h: _detach_states takes every key-less state of the snapshot for pending, also one make_transient() already took out
      evP0 == {x \in X : s.life[x] = "pending" \/ (s.life[x] = "transient" /\ "h" \in Dev)}
      evP == {x \in evP0 : ~s.wasdel[x]}
      \* deviation f2: a state expunged after its flush is still announced as persistent_to_transient / deleted_to_detached
      detT == IF "f2" \in Dev THEN {x \in X : s.life[x] = "detached" /\ s.key[x] # NoKey /\ ~s.wasdel[x]} ELSE {}
      detD == IF "f2" \in Dev THEN {x \in X : s.life[x] = "detached" /\ s.key[x] # NoKey /\ s.wasdel[x]} ELSE {}
      \* deleted -> transient (INSERT and DELETE both rolled back) is announced as deleted_to_detached: read as "evicted, then
      \* stripped of its identity" like make_transient() - accepted by LifecycleChain's silent detached -> transient step
      evT == {x \in X : s.life[x] = "persistent"} \cup detT
      evD == detD \cup {x \in X : s.life[x] = "deleted"} \cup {x \in evP0 : s.wasdel[x]}
      gone == {o \in X : hasKey(o)}
      s1a == [s EXCEPT !.life = [o \in Objs |-> newLife(o)],
               !.imap = [k \in Keys |-> IF s.imap[k] \in X THEN NoObj ELSE s.imap[k]],
               !.key = [o \in Objs |-> IF o \in gone THEN NoKey ELSE s.key[o]],
               !.wasdel = [o \in Objs |-> IF o \in gone /\ "a" \notin Dev THEN FALSE ELSE s.wasdel[o]],   \* deviation a: stale _deleted flag
               !.new = <<>>, !.untr = @ \ X,
               !.sdel = @ \ {o \in X : s.life[o] \in {"persistent", "deleted"}},
               !.tx = [i \in 1..Len(s.tx) |-> [s.tx[i] EXCEPT !.deleted = @ \ {o \in X : s.life[o] = "deleted"}]]]
      s1 == EvAll(EvAll(EvAll(s1a, "pending_to_transient", evP), "persistent_to_transient", evT), "deleted_to_detached", evD)
      \* key switches: safe_discard(s); s.key = oldkey; replace(s) unless expunged
      SW == {o \in Objs : f.ksw[o] # NoKey}
      back == {o \in SW : s1.key[o] # NoKey}
      inback == {o \in back : Attached(s1, o) \/ "kswx" \in Dev}    \* deviation kswx: replace() also for a state expunged in the meantime
      stuck == IF "ksw" \in Dev THEN {o \in SW : s1.key[o] = NoKey} ELSE {}     \* deviation ksw: key restored on an object that went (back) to transient
      imapA == [k \in Keys |-> IF s1.imap[k] \in SW THEN NoObj ELSE s1.imap[k]]
      imapB == [k \in Keys |-> IF \E o \in inback : f.ksw[o] = k THEN CHOOSE o \in inback : f.ksw[o] = k ELSE imapA[k]]
  IN [s1 EXCEPT !.imap = imapB,
                !.key = [o \in Objs |-> IF o \in back \cup stuck THEN f.ksw[o] ELSE s1.key[o]],
                !.life = [o \in Objs |-> IF o \in stuck THEN "detached" ELSE s1.life[o]]]
Restore2(s, f) ==      \* step 2: revert deletions, expire
  LET cand == f.deleted \cup s.sdel
      back == {o \in cand : s.life[o] = "deleted"}
      spurious == IF "d" \in Dev THEN {o \in s.sdel : s.life[o] = "persistent"} ELSE {}          \* deviation d
      s1a == [s EXCEPT !.life = [o \in Objs |-> IF o \in back THEN "persistent" ELSE s.life[o]],
                      !.wasdel = [o \in Objs |-> IF o \in back THEN FALSE ELSE s.wasdel[o]],
                      !.imap = [k \in Keys |-> IF \E o \in back : s.key[o] = k THEN CHOOSE o \in back : s.key[o] = k ELSE s.imap[k]],
                      !.sdel = {}, !.work = f.snap]
      s1 == EvAll(s1a, "deleted_to_persistent", back \cup spurious)
      inmap == {o \in Objs : InMapS(s1, o)}
      hit == {o \in inmap : (~f.nested) \/ s1.mod[o] \/ o \in f.dirty}
  IN ExpireSet(s1, hit)
Restore(s, f) == Restore2(Restore1(s, f), f)
\* ------------------------------------------------------------------ flush: sequential simulation of the unit of work
\* result record: [st, err, nd] ; nd = DML statements emitted so far; fk = inject a fault before DML statement number fk (0 = never)
FR(s, e, n) == [st |-> s, err |-> e, nd |-> n]
InMapSet(s) == {o \in Objs : InMapS(s, o)}
DirtySet(s) == {o \in InMapSet(s) : s.mod[o] /\ o \notin s.sdel}
Clean(s) == s.new = <<>> /\ s.sdel = {} /\ {o \in InMapSet(s) : s.mod[o]} = {}
\* phase A (persistence._organize_states_for_save): a pending object colliding with an identity-map entry;
\* UOWTransaction.was_already_deleted() loads an expired entry (one SELECT) or finds it gone
RECURSIVE ScanPend(_, _)
ScanPend(s, q) ==
  IF q = <<>> THEN s
  ELSE LET o == Head(q) k == s.pk[o] x == s.imap[k]
           s1 == IF x \notin {NoObj, o} /\ Expired(s, x)
                 THEN IF s.work[k] # Absent THEN LoadObj(Sql(s, 1), x)
                      ELSE Ev([Sql(s, 1) EXCEPT !.imap[k] = NoObj, !.sdel = @ \ {x}, !.life[x] = "deleted", !.wasdel[x] = TRUE,
                                                !.tx[Len(s.tx)].deleted = @ \cup {x}], "persistent_to_deleted", x)
                 ELSE s
       IN ScanPend(s1, Tail(q))
\* row switch: pending object whose key is held by an object marked for deletion in this flush -> UPDATE instead of INSERT+DELETE
IsSwitch(s, D, o) == s.imap[s.pk[o]] \in D /\ s.imap[s.pk[o]] # o
SeqOfKeys(s, S) == LET F[k \in 0..Cardinality(Keys)] == IF k = 0 THEN <<>> ELSE IF k \in Keys /\ s.imap[k] \in S THEN Append(F[k - 1], s.imap[k]) ELSE F[k - 1]
                   IN F[Cardinality(Keys)]
VChanged(s, o) == s.cv[o] # NoHist /\ s.cv[o] # s.v[o]
PkChanged(s, o) == s.key[o] # NoKey /\ "id" \notin s.exp[o] /\ s.pk[o] # s.key[o]
Shape(s, o) == <<VChanged(s, o), PkChanged(s, o)>>
\* one UPDATE statement for a group of consecutive records of one shape; rows applied in order
RECURSIVE ApplyUpd(_, _, _, _)
ApplyUpd(s, w, grp, D) ==      \* returns [w, err]
  IF grp = <<>> THEN [w |-> w, err |-> "none"]
  ELSE LET o == Head(grp)
           sw == s.key[o] = NoKey                       \* row-switch record of a pending object
           loc == IF sw THEN s.pk[o] ELSE s.key[o]
           tgt == IF sw THEN s.pk[o] ELSE IF "id" \in s.exp[o] THEN s.key[o] ELSE s.pk[o]
           nv == IF sw \/ VChanged(s, o) THEN s.v[o] ELSE w[loc]
       IN IF w[loc] = Absent THEN [w |-> w, err |-> "StaleDataError"]
          ELSE IF tgt # loc /\ w[tgt] # Absent THEN [w |-> w, err |-> "IntegrityError"]
          ELSE ApplyUpd(s, [[w EXCEPT ![loc] = Absent] EXCEPT ![tgt] = nv], Tail(grp), D)
RECURSIVE UpdGroups(_, _)
UpdGroups(s, q) ==      \* split the update records into maximal runs of equal shape
  IF q = <<>> THEN <<>>
  ELSE LET sh(o) == IF s.key[o] = NoKey THEN <<TRUE, TRUE>> ELSE Shape(s, o)
           n == CHOOSE n \in 1..Len(q) : (\A i \in 1..n : sh(q[i]) = sh(q[1])) /\ (n = Len(q) \/ sh(q[n + 1]) # sh(q[1]))
       IN <<SubSeq(q, 1, n)>> \o UpdGroups(s, SubSeq(q, n + 1, Len(q)))
RECURSIVE LoadAll(_, _)
LoadAll(s, q) == IF q = <<>> THEN s ELSE LET o == Head(q) IN LoadAll(IF Expired(s, o) /\ s.key[o] # NoKey THEN LoadObj(Sql(s, 1), o) ELSE s, Tail(q))
RECURSIVE RunUpd(_, _, _, _, _, _)
RunUpd(s, w, groups, nd, fk, D) ==      \* returns [st, w, err, nd]
  IF groups = <<>> THEN [st |-> s, w |-> w, err |-> "none", nd |-> nd]
  ELSE LET g0 == Head(groups)
           \* itertools.groupby has collected the first record of the next group (and loaded it) before this group executes
           g == IF Len(groups) > 1 THEN Append(g0, Head(groups[2])) ELSE g0
           missing == {i \in 1..Len(g) : Expired(s, g[i]) /\ s.key[g[i]] # NoKey /\ w[s.key[g[i]]] = Absent}
       IN IF missing # {} THEN [st |-> Sql(s, 1), w |-> w, err |-> "ObjectDeletedError", nd |-> nd]
          ELSE LET s1 == LoadAll(s, g) IN
               IF nd + 1 = fk THEN [st |-> s1, w |-> w, err |-> "InjectedFault", nd |-> nd]
               ELSE LET a == ApplyUpd(s1, w, g0, D) s2 == Sql(s1, 1) IN
                    IF a.err # "none" THEN [st |-> s2, w |-> w, err |-> a.err, nd |-> nd + 1]
                    ELSE RunUpd(s2, a.w, Tail(groups), nd + 1, fk, D)
RECURSIVE ApplyIns(_, _, _)
ApplyIns(s, w, q) == IF q = <<>> THEN [w |-> w, err |-> "none"]
                     ELSE LET o == Head(q) IN IF w[s.pk[o]] # Absent THEN [w |-> w, err |-> "IntegrityError"]
                                              ELSE ApplyIns(s, [w EXCEPT ![s.pk[o]] = s.v[o]], Tail(q))
FlushCore(s0, fk) ==      \* s0 has a transaction; returns R(state, ret)
  LET sA == ScanPend(s0, s0.new)
      D == sA.sdel
      P == sA.new
      \* deviation rsw2: every pending object with the key of an object marked deleted becomes a row switch, also a second one
      \* for the same key (both end persistent under one identity; "Identity map already had an identity ... replacing it" warning)
      Idx(o) == CHOOSE i \in 1..Len(P) : P[i] = o
      FirstOfKey(o) == \A j \in 1..(Idx(o) - 1) : sA.pk[P[j]] # sA.pk[o]
      Sw(o) == IsSwitch(sA, D, o) /\ ("rsw2" \in Dev \/ FirstOfKey(o))
      switchers == SelectSeq(P, Sw)
      inserts == SelectSeq(P, LAMBDA o : ~Sw(o))
      dbl == \/ \E i, j \in 1..Len(switchers) : i # j /\ sA.pk[switchers[i]] = sA.pk[switchers[j]]
             \* a switching object that was persistent before (back to transient by rollback / make_transient: no attribute history) takes
             \* the row over without a full UPDATE (none at all, or located by its former key): outside this model, exploration stops
             \/ \E i \in 1..Len(switchers) : ~VChanged(sA, switchers[i])
      switched == {sA.imap[sA.pk[o]] : o \in Range(switchers)}         \* their delete is cancelled (remove_state_actions)
      U == DirtySet(sA)
      updq == switchers \o SeqOfKeys(sA, {o \in U : VChanged(sA, o) \/ PkChanged(sA, o)})
      ru == RunUpd(sA, sA.work, UpdGroups(sA, updq), 0, fk, D)
  IN IF ru.err # "none" THEN [st |-> ru.st, err |-> ru.err]
     ELSE LET sB == ru.st
              ndI == IF inserts = <<>> THEN ru.nd ELSE ru.nd + 1
              failI == inserts # <<>> /\ ru.nd + 1 = fk
              ai == IF failI THEN [w |-> ru.w, err |-> "InjectedFault"] ELSE ApplyIns(sB, ru.w, inserts)
              sC == IF inserts # <<>> /\ ~failI THEN Sql(sB, 1) ELSE sB
          IN IF ai.err # "none" THEN [st |-> sC, err |-> ai.err]
             ELSE LET Dq == SeqOfKeys(sC, D \ switched)
                      \* deletes: an expired object is loaded first (ObjectDeletedError when its row is gone)
                      missing == {i \in 1..Len(Dq) : Expired(sC, Dq[i]) /\ ai.w[sC.key[Dq[i]]] = Absent}
                  IN IF missing # {} THEN [st |-> Sql(sC, 1), err |-> "ObjectDeletedError"]
                     ELSE LET sD == LoadAll([sC EXCEPT !.work = ai.w], Dq)       \* loads see the rows written so far
                              sD1 == [sD EXCEPT !.work = sC.work]
                          IN IF Dq # <<>> /\ ndI + 1 = fk THEN [st |-> sD1, err |-> "InjectedFault"]
                             ELSE LET wD == [k \in Keys |-> IF \E i \in 1..Len(Dq) : sD1.key[Dq[i]] = k THEN Absent ELSE ai.w[k]]
                                      sE == IF Dq # <<>> THEN Sql(sD1, 1) ELSE sD1
                                  IN IF fk = -1 THEN [st |-> sE, err |-> "InjectedFault"]      \* raised from after_flush
                                     ELSE [st |-> [sE EXCEPT !.taint = @ \/ dbl], err |-> "none", w |-> wD, P |-> Range(P), U |-> U, D |-> D \ switched,
                                           SW |-> switched]      \* which of two switchers the identity map keeps is hash order: exploration stops
Fail(s, err) == R([GClearTop(Restore(s, Top(s))) EXCEPT !.needrb = TRUE], err)
FlushWith(s, fk) ==
  IF Clean(s) THEN R(s, "ok")
  ELSE IF s.needrb THEN R(s, "PendingRollbackError")
  ELSE LET s0 == AutoBegin(s) fc == FlushCore(s0, fk) IN
       IF fc.err # "none" THEN Fail(fc.st, fc.err)
       ELSE LET s1 == fc.st P == fc.P U == fc.U D == fc.D SW == fc.SW top == Top(s1)
                KS == {o \in U : PkChanged(s1, o)}                  \* primary key switches of this flush
                imap0 == [k \in Keys |-> IF s1.imap[k] \in D \cup SW \cup KS THEN NoObj ELSE s1.imap[k]]
                imap1 == [k \in Keys |-> IF \E o \in KS : s1.pk[o] = k THEN CHOOSE o \in KS : s1.pk[o] = k ELSE imap0[k]]
                imap2 == [k \in Keys |-> IF \E o \in P : s1.pk[o] = k THEN CHOOSE o \in P : s1.pk[o] = k ELSE imap1[k]]
                s2 == [s1 EXCEPT !.work = fc.w,
                   !.life = [o \in Objs |-> IF o \in P THEN (IF s1.wasdel[o] THEN "deleted" ELSE "persistent")    \* deviation a
                                            ELSE IF o \in D \cup SW THEN "deleted" ELSE s1.life[o]],
                   !.key = [o \in Objs |-> IF o \in P \cup KS THEN s1.pk[o] ELSE s1.key[o]],
                   !.imap = imap2, !.new = <<>>, !.sdel = {},
                   !.mod = [o \in Objs |-> IF o \in P \cup U THEN FALSE ELSE s1.mod[o]],      \* deleted objects keep their history
                   !.cv = [o \in Objs |-> IF o \in P \cup U THEN NoHist ELSE s1.cv[o]],
                   !.wasdel = [o \in Objs |-> IF o \in D \cup SW THEN TRUE ELSE s1.wasdel[o]],
                   !.tx[Len(s1.tx)] = [top EXCEPT !.new = @ \cup P, !.dirty = @ \cup U, !.deleted = @ \cup D \cup SW,
                                                  !.ksw = [o \in Objs |-> IF o \in KS /\ @[o] = NoKey THEN s1.key[o] ELSE @[o]]],
                   !.ev = @ \cup {<<"pending_to_persistent", o, 1>> : o \in P} \cup {<<"persistent_to_deleted", o, 1>> : o \in D \cup SW}]
            IN R(GWrite(s2, fc.w), "ok")
DoFlush(s) == FlushWith(s, 0)
LoadExpired(s, o) ==
  IF s.needrb THEN R(s, "PendingRollbackError")
  ELSE LET f == DoFlush(AutoBegin(s)) IN
       IF f.ret # "ok" THEN f
       ELSE LET s1 == Sql(f.st, 1) IN
            IF s1.work[s1.key[o]] = Absent THEN R(s1, "ObjectDeletedError") ELSE R(LoadAttrs(s1, o, s.exp[o]), "ok")
\* the primary key attribute has active history: setting it on an object whose id is not loaded loads first
\* (state._load_expired with PASSIVE_OFF: autoflush, then one SELECT by identity key)
DoSetPk(s, o, k) ==
  IF "id" \in s.exp[o] THEN
     IF ~Attached(s, o) THEN R(s, "DetachedInstanceError")
     ELSE LET l == LoadExpired(s, o) IN IF l.ret # "ok" THEN l ELSE R([l.st EXCEPT !.pk[o] = k, !.mod[o] = TRUE], "ok")
  ELSE LET s0 == IF Attached(s, o) THEN AutoBegin(s) ELSE s IN R([s0 EXCEPT !.pk[o] = k, !.mod[o] = TRUE], "ok")
\* ------------------------------------------------------------------ transactions
DoCommit(s) ==
  IF s.needrb THEN R(s, "PendingRollbackError")
  ELSE LET f == DoFlush(AutoBegin(s)) IN
       IF f.ret # "ok" THEN f
       ELSE LET s1 == f.st alldel == UNION {s1.tx[i].deleted : i \in 1..Len(s1.tx)}
                det == IF Eoc \/ "eoc" \notin Dev THEN alldel ELSE {}      \* deviation eoc: _detach_states(self._deleted) skipped
                gone == {o \in det : s1.life[o] = "deleted"}
                again == {o \in det : s1.life[o] = "detached" /\ s1.wasdel[o]}    \* deviation g: expunged inside a savepoint, still in the outer snapshot
                s2 == IF Eoc THEN ExpireSet(s1, InMapSet(s1)) ELSE s1
            IN R(GCommit([s2 EXCEPT !.committed = s1.work, !.tx = <<>>, !.untr = @ \ gone,
                            !.life = [o \in Objs |-> IF o \in gone THEN "detached" ELSE s1.life[o]],
                            !.ev = @ \cup {<<"deleted_to_detached", o, 1>> : o \in gone \cup again}]), "ok")
\* SessionTransaction.rollback(): an ACTIVE boundary is restored; a DEACTIVE one (failed flush: restored then) only when the
\* session was changed in the meantime ("Session's state has been changed on a non-active transaction" warning)
PopRestore(s, dead) == LET f == Top(s) s1 == [s EXCEPT !.tx = SubSeq(@, 1, Len(@) - 1)]
                       IN IF dead /\ Clean(s) THEN [s1 EXCEPT !.work = f.snap] ELSE Restore(s1, f)
RECURSIVE Unwind(_, _)
Unwind(s, dead) == IF s.tx = <<>> THEN s ELSE Unwind(PopRestore(s, dead), FALSE)
DoRollback(s) == LET s0 == [s EXCEPT !.needrb = FALSE] IN IF s.tx = <<>> THEN R(s0, "ok") ELSE R(GAbort([Unwind(s0, s.needrb) EXCEPT !.work = s.committed]), "ok")
DoBeginNested(s) ==
  IF s.needrb THEN R(s, "PendingRollbackError")
  ELSE LET f == DoFlush(AutoBegin(s)) IN IF f.ret # "ok" THEN f ELSE R(GPush([f.st EXCEPT !.tx = Append(@, Frame(f.st.work, TRUE))]), "ok")
MergeSw(p, t) == [o \in Objs |-> IF t[o] # NoKey THEN (IF "kswmerge" \in Dev \/ p[o] = NoKey THEN t[o] ELSE p[o]) ELSE p[o]]   \* deviation kswmerge
DoSpCommit(s) ==
  IF s.needrb THEN R(s, "PendingRollbackError")
  ELSE LET f == DoFlush(s) IN
       IF f.ret # "ok" THEN f
       ELSE LET s1 == f.st t == Top(s1) n == Len(s1.tx) p == s1.tx[n - 1] IN
            R(GPopMerge([s1 EXCEPT !.tx = Append(SubSeq(s1.tx, 1, n - 2),
                      [p EXCEPT !.new = @ \cup t.new, !.dirty = @ \cup t.dirty, !.deleted = @ \cup t.deleted, !.ksw = MergeSw(@, t.ksw)])]), "ok")
DoSpRollback(s) == R(GPopDiscard([PopRestore(s, s.needrb) EXCEPT !.needrb = FALSE]), "ok")
DoExpire(s, o) == IF ~InMapS(s, o) THEN R(s, "InvalidRequestError") ELSE R(ExpireObj(s, o), "ok")
DoExpireAll(s) == R(ExpireSet(s, InMapSet(s)), "ok")
DoRefresh(s, o) ==
  IF ~InMapS(s, o) THEN R(s, "InvalidRequestError")
  ELSE LET s0 == ExpireObj(s, o) f == DoFlush(s0) IN
       IF f.ret # "ok" THEN f
       ELSE IF s.needrb THEN R(f.st, "PendingRollbackError")
       ELSE IF ~InMapS(f.st, o) /\ "gsw" \notin Dev THEN R(f.st, "InvalidRequestError")   \* re-validated after the autoflush (no SELECT)
       ELSE LET s1 == Sql(AutoBegin(f.st), 1) IN
            IF s1.work[s1.key[o]] = Absent THEN R(s1, "InvalidRequestError")
            ELSE R(LoadAttrs(s1, o, BothAttrs), "ok")      \* deviation gsw: the autoflush switched the row to another object; o (deleted) is refreshed from it
\* Session._remove_newly_deleted([o]) for an identity-map entry whose row turned out to be gone
RemoveNewlyDeleted(s, o) ==
  IF InMapS(s, o) THEN Ev([s EXCEPT !.imap[s.key[o]] = NoObj, !.sdel = @ \ {o}, !.life[o] = "deleted", !.wasdel[o] = TRUE,
                                    !.tx[Len(s.tx)].deleted = @ \cup {o}], "persistent_to_deleted", o)
  ELSE IF "e" \in Dev THEN Ev(s, "persistent_to_deleted", o) ELSE s            \* deviation e: already deleted by the autoflush
DoGet(s, k) ==
  IF s.imap[k] # NoObj /\ ~Expired(s, s.imap[k]) THEN R(s, "obj:" \o s.imap[k])
  ELSE IF s.imap[k] # NoObj /\ ~Attached(s, s.imap[k]) THEN R(s, "DetachedInstanceError")     \* reachable through deviation kswx only
  ELSE IF s.needrb THEN R(s, "PendingRollbackError")
  ELSE IF s.imap[k] # NoObj THEN
       LET o == s.imap[k] IN
       IF ~Expired(s, o) THEN R(s, "obj:" \o o)
       ELSE \* loading._get_from_identity: refresh of the expired entry (autoflushes), ObjectDeletedError -> None -> SELECT by key
            LET f == DoFlush(AutoBegin(s)) IN
            IF f.ret # "ok" THEN f
            ELSE LET s1 == Sql(f.st, 1) IN
                 IF s1.work[k] = Absent
                 THEN R(Sql(RemoveNewlyDeleted(s1, o), 1), "none")
                 ELSE IF s1.imap[k] # o /\ "gsw" \notin Dev     \* the autoflush switched the row to another object
                 THEN R(Sql(LoadAttrs(s1, o, s.exp[o]), 1), IF s1.imap[k] = NoObj THEN "new" ELSE "obj:" \o s1.imap[k])   \* o (deleted) is refreshed, not returned
                 ELSE R(LoadAttrs(s1, o, s.exp[o]), "obj:" \o o)               \* deviation gsw: the deleted object is refreshed from the other object's row and returned
  ELSE LET f == DoFlush(AutoBegin(s)) IN
       IF f.ret # "ok" THEN f
       ELSE LET s1 == Sql(f.st, 1) IN
            IF s1.work[k] = Absent THEN R(s1, "none")
            ELSE IF s1.imap[k] # NoObj THEN R(s1, "obj:" \o s1.imap[k])
            ELSE R(s1, "new")
DoClose(s) ==
  LET P == Range(s.new) M == InMapSet(s)
      DD == IF "b" \in Dev THEN {} ELSE {o \in Objs : s.life[o] = "deleted" /\ o \notin M}      \* deviation b: deleted stay deleted
  IN R(GAbort([s EXCEPT !.tx = <<>>, !.work = s.committed, !.needrb = FALSE, !.new = <<>>, !.sdel = {}, !.untr = {},
                 !.imap = [k \in Keys |-> NoObj],
                 !.life = [o \in Objs |-> IF o \in P THEN "transient" ELSE IF o \in M \cup DD THEN "detached" ELSE s.life[o]],
                 !.ev = @ \cup {<<PendEv(s, o), o, 1>> : o \in P} \cup {<<"persistent_to_detached", o, 1>> : o \in {x \in M : ~s.wasdel[x]}}
                          \cup {<<"deleted_to_detached", o, 1>> : o \in {x \in M : s.wasdel[x]} \cup DD}]), "ok")
\* ------------------------------------------------------------------ C32: fail, roll back, repeat the same work
ObjOrder == SelectSeq(<<"o1", "o2", "o3">>, LAMBDA o : o \in Objs)
TopFresh(s) == LET s0 == AutoBegin(s) t == Top(s0) IN t.new = {} /\ t.dirty = {} /\ t.deleted = {} /\ t.ksw = NoSw /\ s0.work = t.snap
\* the work of the failed flush as the user expressed it: per object set id / set v, then add() in the original order, then delete()
RECURSIVE ReAdd(_, _, _)
ReAdd(acc, s0, q) == IF q = <<>> \/ acc.ret # "ok" THEN acc ELSE ReAdd(DoAdd(acc.st, Head(q)), s0, Tail(q))
RECURSIVE ReSet(_, _, _)
ReSet(acc, s0, q) ==
  IF q = <<>> \/ acc.ret # "ok" THEN acc
  ELSE LET o == Head(q)
           a1 == IF o \in DirtySet(s0) /\ PkChanged(s0, o) THEN DoSetPk(acc.st, o, s0.pk[o]) ELSE acc
           a2 == IF a1.ret = "ok" /\ o \in DirtySet(s0) /\ s0.cv[o] # NoHist /\ "v" \notin s0.exp[o] THEN DoSetV(a1.st, o, s0.v[o]) ELSE a1
       IN ReSet(a2, s0, Tail(q))
RECURSIVE ReDel(_, _, _)
ReDel(acc, s0, q) == IF q = <<>> \/ acc.ret # "ok" THEN acc
                     ELSE ReDel(IF Head(q) \in s0.sdel THEN DoDelete(acc.st, Head(q)) ELSE acc, s0, Tail(q))
DoFailRedo(s, fk) ==
  LET f == FlushWith(s, fk)
      rb == IF Len(f.st.tx) > 1 THEN DoSpRollback(f.st) ELSE DoRollback(f.st)
      w1 == ReSet(R(rb.st, "ok"), s, ObjOrder)       \* attribute changes first: they reload the expired objects (with autoflush)
      w2 == ReAdd(w1, s, s.new)
      w3 == ReDel(w2, s, ObjOrder)
      fl == IF w3.ret = "ok" THEN DoFlush(w3.st) ELSE w3
  IN R(fl.st, f.ret \o "/" \o rb.ret \o "/" \o w3.ret \o "/" \o fl.ret)
\* ------------------------------------------------------------------ actions
Clear(s) == [s EXCEPT !.ev = {}, !.sql = 0]
Step(name, arg, res) == LET r == res IN st' = r.st /\ last' = [a |-> name, arg |-> arg, ret |-> r.ret, ev |-> r.st.ev, sql |-> r.st.sql]
\* start state of the cfgs that spend their depth budget inside savepoints: the state after add(o1); commit()
StartSt == IF Start = "committed" THEN Clear(DoCommit(DoAdd(InitSt, "o1").st).st) ELSE InitSt
Init == st = StartSt /\ last = [a |-> "init", arg |-> <<>>, ret |-> "ok", ev |-> {}, sql |-> 0]
On(g) == g \in Acts
\* generator preconditions (documented misuse the model does not follow): a detached object is re-attached only if its row
\* exists (otherwise the documented "Identity map already had an identity ... replacing it" warning path is entered)
RowExists(o) == IF st.life[o] = "detached" THEN st.work[st.key[o]] # Absent ELSE TRUE
Loaded(o) == st.exp[o] = {}
\* an object sent back to transient while expired has no attribute values (pk None): not re-added; an object expunged inside a
\* savepoint while an outer snapshot still lists it as deleted (deviation g) is not revived with make_transient
AddOk(o) == st.life[o] = "transient" => Loaded(o)
Ghost(o) == \/ st.life[o] = "detached" /\ \E i \in 1..Len(st.tx) : o \in st.tx[i].deleted
            \/ \E i \in 1..(Len(st.tx) - 1) : o \in st.tx[i].deleted
Next == ~st.taint /\
        \/ \E o \in Objs : \/ (RowExists(o) /\ AddOk(o) /\ Step("Add", <<o>>, DoAdd(Clear(st), o)))
                           \/ (On("SetV") /\ st.life[o] # "deleted" /\ ~(st.life[o] = "detached" /\ ~Loaded(o))
                               /\ \E x \in Vals : Step("SetV", <<o, x>>, DoSetV(Clear(st), o, x)))
                           \/ (On("SetPk") /\ st.life[o] # "deleted" /\ ~(st.life[o] = "detached" /\ ~Loaded(o))
                               /\ \E k \in Keys : k # st.pk[o] /\ Step("SetPk", <<o, k>>, DoSetPk(Clear(st), o, k)))
                           \/ (RowExists(o) /\ (On("Misuse") \/ ~(st.wasdel[o] /\ st.life[o] \in {"deleted", "detached"})) /\ Step("Delete", <<o>>, DoDelete(Clear(st), o)))
                           \/ (On("Expunge") /\ Step("Expunge", <<o>>, DoExpunge(Clear(st), o)))
                           \/ (On("Expire") /\ Step("Expire", <<o>>, DoExpire(Clear(st), o)))
                           \/ (On("Refresh") /\ Step("Refresh", <<o>>, DoRefresh(Clear(st), o)))
                           \/ (On("MakeTransient") /\ Loaded(o) /\ ~Ghost(o) /\ st.life[o] # "transient" /\ Step("MakeTransient", <<o>>, DoMakeTransient(Clear(st), o)))
        \/ Step("Flush", <<>>, DoFlush(Clear(st)))
        \/ (On("Fail") /\ ~Clean(st) /\ ~st.needrb /\ \E k \in {-1} \cup (1..3) :
              LET r == FlushWith(Clear(st), k) IN r.ret = "InjectedFault" /\ Step("FlushFail", <<k>>, r))
        \/ (On("Redo") /\ ~Clean(st) /\ ~st.needrb /\ TopFresh(st) /\ FlushWith(Clear(st), 0).ret = "ok" /\ \E k \in {-1} \cup (1..3) :
              FlushWith(Clear(st), k).ret = "InjectedFault" /\ Step("FailRedo", <<k>>, DoFailRedo(Clear(st), k)))
        \/ Step("Commit", <<>>, DoCommit(Clear(st))) \/ Step("Rollback", <<>>, DoRollback(Clear(st)))
        \/ (On("Sp") /\ Len(AutoBegin(st).tx) <= MaxSp /\ Step("BeginNested", <<>>, DoBeginNested(Clear(st))))
        \/ (On("Sp") /\ Len(st.tx) > 1 /\ (Step("SpCommit", <<>>, DoSpCommit(Clear(st))) \/ Step("SpRollback", <<>>, DoSpRollback(Clear(st)))))
        \/ (On("Get") /\ \E k \in Keys : Step("Get", <<k>>, DoGet(Clear(st), k)))
        \/ (On("Expire") /\ Step("ExpireAll", <<>>, DoExpireAll(Clear(st))))
        \/ (On("Close") /\ Step("Close", <<>>, DoClose(Clear(st))))
Spec == Init /\ [][Next]_vars
V(s) == [s EXCEPT !.ev = {}, !.sql = 0]
View == V(st)
Depth == TLCGet("level") <= MaxDepth
\* what the binding compares after every step (besides last.ret / last.ev / last.sql)
Obs(s) == [o |-> [o \in Objs |-> [life |-> s.life[o], key |-> s.key[o],
                                  id |-> IF "id" \in s.exp[o] THEN Absent ELSE s.pk[o], v |-> IF "v" \in s.exp[o] THEN Absent ELSE s.v[o],
                                  mod |-> s.mod[o], wasdel |-> s.wasdel[o],
                                  new |-> o \in Range(s.new), deleted |-> o \in s.sdel, dirty |-> o \in DirtySet(s),
                                  inmap |-> InMapS(s, o)]],
           imap |-> s.imap, intx |-> s.tx # <<>>, depth |-> Len(s.tx), work |-> s.work, committed |-> s.committed, needrb |-> s.needrb]
Emit == PrintT(ToJson([from |-> V(st), act |-> last', to |-> V(st'), obs |-> Obs(st')]))
InitEmit == Init /\ PrintT(ToJson([init |-> V(st)]))
\* ================================================================== properties
InMap(o) == InMapS(st, o)
\* ---------- C34: at most one object per identity
OneIdentity == \A k \in Keys : st.imap[k] # NoObj => st.key[st.imap[k]] = k
OnePerObject == \A o \in Objs : Cardinality({k \in Keys : st.imap[k] = o}) <= 1
PersistentInMap == \A o \in Objs : st.life[o] = "persistent" => st.imap[st.key[o]] = o
\* the identity map holds only objects that belong to the session (persistent; never detached / transient / deleted ones)
MapHoldsAttached == \A k \in Keys : st.imap[k] # NoObj => st.life[st.imap[k]] = "persistent"
\* Session.get returns the mapped object, and without SQL when it is present and not expired
GetReturnsMapped == [][ (last'.a = "Get" /\ st.imap[last'.arg[1]] # NoObj)
                          => (LET o == st.imap[last'.arg[1]] IN
                                 (~Expired(st, o) => last'.ret = "obj:" \o o /\ last'.sql = 0 /\ V(st') = V(st))) ]_vars
GetIsMapEntry == [][ (last'.a = "Get" /\ \E o \in Objs : last'.ret = "obj:" \o o) => last'.ret = "obj:" \o st'.imap[last'.arg[1]] ]_vars
\* ---------- C35: lifecycle
LifeType == \A o \in Objs : st.life[o] \in States
\* membership follows the state: pending <=> in session.new, persistent => in the identity map, others not in the session
LifeMembership == \A o \in Objs : /\ (st.life[o] = "pending" <=> o \in Range(st.new))
                                  /\ (st.life[o] \in {"transient", "detached"} => ~InMap(o) /\ o \notin st.sdel)
                                  /\ (st.life[o] \in {"transient", "pending"} <=> st.key[o] = NoKey)
\* the documented guarantee "a deleted object is not in the identity map"  (violated through deviation c)
DeletedNotInMap == \A o \in Objs : st.life[o] = "deleted" => ~InMap(o)
\* a live identity-map entry never belongs to an object reported as deleted unless it is marked (violated through deviation a)
NoLiveDeleted == \A o \in Objs : (st.life[o] = "deleted" /\ InMap(o)) => o \in st.sdel
\* documented transitions: event name <-> edge (Appendix B / orm/events.py)
EvSrc(n) == CASE n = "transient_to_pending" -> "transient" [] n = "pending_to_transient" -> "pending" [] n = "persistent_to_transient" -> "persistent"
              [] n = "pending_to_persistent" -> "pending" [] n = "detached_to_persistent" -> "detached" [] n = "persistent_to_deleted" -> "persistent"
              [] n = "deleted_to_persistent" -> "deleted" [] n = "deleted_to_detached" -> "deleted" [] n = "persistent_to_detached" -> "persistent"
              [] OTHER -> "none"
EvDst(n) == CASE n = "transient_to_pending" -> "pending" [] n = "pending_to_transient" -> "transient" [] n = "persistent_to_transient" -> "transient"
              [] n = "pending_to_persistent" -> "persistent" [] n = "detached_to_persistent" -> "persistent" [] n = "persistent_to_deleted" -> "deleted"
              [] n = "deleted_to_persistent" -> "persistent" [] n = "deleted_to_detached" -> "detached" [] n = "persistent_to_detached" -> "detached"
              [] OTHER -> "none"
\* transitions that have no event of their own: the object is outside the session (detached) and loses its identity:
\* make_transient() (= expunge, then strip the identity) and the rollback of the transaction that inserted an object expunged since
RECURSIVE Chain(_, _, _)
Chain(from, to, E) == IF E = {} THEN from = to ELSE \E e \in E : EvSrc(e) = from /\ Chain(EvDst(e), to, E \ {e})
EvOf(ev, o) == {e[1] : e \in {x \in ev : x[2] = o}}
SilentOk(a) == a \in {"MakeTransient", "Rollback", "SpRollback", "Flush", "FlushFail", "Commit", "BeginNested", "SpCommit", "Get", "Refresh", "SetPk"}
\* every life change follows documented edges, each with exactly its event, once; no event without its transition
LifecycleChain == [][ \A o \in Objs :
                        /\ \A e \in last'.ev : e[3] = 1
                        /\ \/ Chain(st.life[o], st'.life[o], EvOf(last'.ev, o))
                           \/ (st'.life[o] = "transient" /\ SilentOk(last'.a) /\ Chain(st.life[o], "detached", EvOf(last'.ev, o))) ]_vars
\* ---------- C33: session vs database
NoTxMeansCommitted == st.tx = <<>> => st.work = st.committed
\* loaded, unmodified attribute values of an object in the session equal its row in the surviving scope
AttrAgree == \A o \in Objs : (st.life[o] = "persistent" /\ InMap(o) /\ ~st.mod[o] /\ "v" \notin st.exp[o] /\ ~st.needrb /\ o \notin st.untr)
                                => st.work[st.key[o]] = st.v[o]
IdAgree == \A o \in Objs : (st.life[o] = "persistent" /\ InMap(o) /\ ~st.mod[o] /\ "id" \notin st.exp[o] /\ o \notin st.untr) => st.pk[o] = st.key[o]
\* membership: a persistent object has a row in the surviving scope, 
PersistentHasRow == \A o \in Objs : (st.life[o] = "persistent" /\ ~st.needrb) => st.work[st.key[o]] # Absent
\* the deleted state exists only inside the transaction that can still revert it
NoDeletedOutsideTx == st.tx = <<>> => \A o \in Objs : st.life[o] # "deleted"
\* after commit / rollback the objects that were added (resp. deleted) in the ended scope are gone from (back in) the session
AfterRollback == [][ (last'.a \in {"Rollback"} /\ last'.ret = "ok") =>
                       /\ st'.tx = <<>> /\ st'.work = st'.committed /\ st'.committed = st.committed /\ ~st'.needrb
                       /\ \A o \in Objs : (o \in Range(st.new) \cup UNION {st.tx[i].new : i \in 1..Len(st.tx)}) => st'.life[o] = "transient" ]_vars
\* the database the session talks to equals the nested-transaction reference over the user's calls
RefCommitted == st.committed = st.refc
RefLive == ~st.needrb => st.work = GView(st)
RefFrames == \A i \in 1..Len(st.tx) : st.tx[i].snap = GViewUpTo(st, i - 1)
CommittedOnlyByCommit == [][ st'.committed # st.committed => (last'.a = "Commit" /\ last'.ret = "ok") ]_vars
\* ---------- C32: failed flush
FailedFlushCommitsNothing == [][ last'.ret \notin {"ok", "none", "new"} /\ (\A o \in Objs : last'.ret # "obj:" \o o)
                                   => st'.committed = st.committed ]_vars
FailNeedsRollback == [][ (last'.a \in {"Flush", "FlushFail", "Commit", "BeginNested", "SpCommit", "Get", "Refresh"}
                          /\ last'.ret \in {"IntegrityError", "StaleDataError", "ObjectDeletedError", "InjectedFault"} /\ last'.a # "Refresh")
                            => st'.needrb ]_vars
\* until rollback() the session refuses to work (anything that needs the transaction raises PendingRollbackError) and nothing moves in the database
PendingRollbackUntilRollback == [][ st.needrb =>
                                     /\ (last'.a \in {"Commit", "BeginNested", "SpCommit"} => last'.ret = "PendingRollbackError")
                                     /\ (last'.a = "Get" => last'.ret = "PendingRollbackError" \/ (last'.sql = 0 /\ V(st') = V(st)))
                                     /\ (last'.a = "Flush" /\ ~Clean(st) => last'.ret = "PendingRollbackError")
                                     /\ (last'.a \notin {"Rollback", "SpRollback", "Close"} => st'.needrb /\ st'.work = st.work)
                                     /\ st'.committed = st.committed ]_vars
\* repeating the same work after the rollback succeeds and gives what the failure-free flush would have given
RedoOk == [][ last'.a = "FailRedo" =>
               LET ok == FlushWith(Clear(st), 0) IN
               /\ last'.ret = "InjectedFault/ok/ok/ok"
               /\ ok.ret = "ok" /\ st'.work = ok.st.work /\ st'.committed = st.committed
               /\ \A o \in Objs : st'.life[o] = ok.st.life[o] /\ st'.key[o] = ok.st.key[o]
               /\ st'.imap = ok.st.imap /\ st'.new = <<>> /\ st'.sdel = {} ]_vars
\* after the failed flush the innermost scope is as it was when it began
FailRestoresScope == [][ (~st.needrb /\ st'.needrb) => (st'.work = Top(st').snap /\ st'.new = <<>> /\ st'.sdel = {}
                                                         /\ \A o \in Top(st').new : st'.life[o] = "transient") ]_vars
=============================================================================
