---------------------------- MODULE ConstraintDB ----------------------------
(* A database that checks PRIMARY KEY, NOT NULL and FOREIGN KEY constraints immediately (per statement), the reference the
   unit of work's statement order is judged against (C31).  A row is [t |-> table, pk |-> key, fk |-> [col |-> key | "null"]];
   a schema is a set of foreign-key columns [t, col, ref, nullable].  A statement is ENABLED only when the state it produces
   satisfies every constraint:
     Insert   key unused in the table, NOT NULL columns given, every referenced row present (the row may reference itself)
     Update   row present, NOT NULL respected, every newly referenced row present
     Delete   row present, no OTHER row references it
   TLC checks on a small instance that Consistent is inductive (no reachable state has a dangling reference, a NULL in a
   NOT NULL column or a duplicate key) and that the three guards are exactly "the successor state is Consistent" (GuardsExact),
   i.e. the guards are neither too weak nor too strong.  TraceUow.tla replays recorded flushes through these operators. *)
EXTENDS Integers, Sequences, FiniteSets, TLC
CONSTANTS Keys, SchemaName              \* instance for the stand-alone check: key values and one of the named schemas below
VARIABLES rows
Null == "null"
Cols(S, t) == {f.col : f \in {f \in S : f.t = t}}
FkOf(S, t, col) == CHOOSE f \in S : f.t = t /\ f.col = col
Has(R, t, pk) == \E r \in R : r.t = t /\ r.pk = pk
RowOf(R, t, pk) == CHOOSE r \in R : r.t = t /\ r.pk = pk
\* every constraint, stated on a set of rows
Consistent(S, R) ==
   /\ \A r1, r2 \in R : (r1.t = r2.t /\ r1.pk = r2.pk) => r1 = r2                                  \* PRIMARY KEY
   /\ \A r \in R : DOMAIN r.fk = Cols(S, r.t)
   /\ \A r \in R : \A c \in DOMAIN r.fk :
         IF r.fk[c] = Null THEN FkOf(S, r.t, c).nullable                                           \* NOT NULL
         ELSE Has(R, FkOf(S, r.t, c).ref, r.fk[c])                                                  \* FOREIGN KEY
RefsOk(S, R, row) == \A c \in DOMAIN row.fk :
         IF row.fk[c] = Null THEN FkOf(S, row.t, c).nullable
         ELSE Has(R, FkOf(S, row.t, c).ref, row.fk[c]) \/ (FkOf(S, row.t, c).ref = row.t /\ row.fk[c] = row.pk)
CanInsert(S, R, row) == ~Has(R, row.t, row.pk) /\ DOMAIN row.fk = Cols(S, row.t) /\ RefsOk(S, R, row)
DoInsert(R, row) == R \cup {row}
Merged(old, set) == [c \in DOMAIN old |-> IF c \in DOMAIN set THEN set[c] ELSE old[c]]
CanUpdate(S, R, t, pk, set) == /\ Has(R, t, pk) /\ DOMAIN set \subseteq Cols(S, t)
                               /\ LET old == RowOf(R, t, pk) IN RefsOk(S, R, [old EXCEPT !.fk = Merged(old.fk, set)])
DoUpdate(R, t, pk, set) == LET old == RowOf(R, t, pk) IN (R \ {old}) \cup {[old EXCEPT !.fk = Merged(old.fk, set)]}
Referenced(S, R, t, pk) == \E r \in R : ~(r.t = t /\ r.pk = pk) /\ \E c \in DOMAIN r.fk : FkOf(S, r.t, c).ref = t /\ r.fk[c] = pk
CanDelete(S, R, t, pk) == Has(R, t, pk) /\ ~Referenced(S, R, t, pk)
DoDelete(R, t, pk) == R \ {RowOf(R, t, pk)}
\* ---------------------------------------------------------------- stand-alone instance
Fk(t, col, ref, nullable) == [t |-> t, col |-> col, ref |-> ref, nullable |-> nullable]
Schema == CASE SchemaName = "pc" -> {Fk("c", "pid", "p", TRUE)}                                   \* one-to-many tree, nullable FK
            [] SchemaName = "pc_notnull" -> {Fk("c", "pid", "p", FALSE)}
            [] SchemaName = "self" -> {Fk("n", "parent_id", "n", TRUE)}                            \* self-referential
            [] SchemaName = "cycle" -> {Fk("a", "b_id", "b", TRUE), Fk("b", "a_id", "a", TRUE)}   \* mutual FK cycle (post_update)
            [] SchemaName = "m2m" -> {Fk("lr", "l_id", "l", FALSE), Fk("lr", "r_id", "r", FALSE)}  \* association table
Tables == CASE SchemaName \in {"pc", "pc_notnull"} -> {"p", "c"} [] SchemaName = "self" -> {"n"}
            [] SchemaName = "cycle" -> {"a", "b"} [] SchemaName = "m2m" -> {"l", "r", "lr"}
AllRows == UNION {{[t |-> t, pk |-> k, fk |-> f] : k \in Keys, f \in [Cols(Schema, t) -> Keys \cup {Null}]} : t \in Tables}
Init == rows = {}
Insert == \E row \in AllRows : CanInsert(Schema, rows, row) /\ rows' = DoInsert(rows, row)
Update == \E r \in rows : \E c \in DOMAIN r.fk : \E v \in Keys \cup {Null} :
             CanUpdate(Schema, rows, r.t, r.pk, c :> v) /\ rows' = DoUpdate(rows, r.t, r.pk, c :> v)
Delete == \E r \in rows : CanDelete(Schema, rows, r.t, r.pk) /\ rows' = DoDelete(rows, r.t, r.pk)
Next == Insert \/ Update \/ Delete
Spec == Init /\ [][Next]_rows
AlwaysConsistent == Consistent(Schema, rows)
\* the guards are exact: a statement is enabled iff the state it would produce is consistent
GuardsExact ==
   /\ \A row \in AllRows : ~Has(rows, row.t, row.pk) => (CanInsert(Schema, rows, row) <=> Consistent(Schema, DoInsert(rows, row)))
   /\ \A r \in rows : \A c \in DOMAIN r.fk : \A v \in Keys \cup {Null} :
         CanUpdate(Schema, rows, r.t, r.pk, c :> v) <=> Consistent(Schema, DoUpdate(rows, r.t, r.pk, c :> v))
   /\ \A r \in rows : CanDelete(Schema, rows, r.t, r.pk) <=> Consistent(Schema, DoDelete(rows, r.t, r.pk))
=============================================================================
