---------------------------- MODULE Defaults ----------------------------
(* C13: column defaults / onupdate fire exactly when the value is omitted, once per row.

   "Function transcription" module (like TopoSort): every case is ONE initial state; TLC computes what the statement
   must store with the MECHANISM operators (transcribed from sql/crud.py _scan_cols / _append_param_* /
   _extend_values_for_multiparams, engine/default.py _process_execute_defaults and orm/persistence.py
   _collect_insert_commands), checks it against the DECLARATIVE reading of the property (AppliedIffOmitted,
   SuppliedNeverOverridden, OncePerRow, ErrorsOnlyWhenDocumented), and prints the case with its expected outcome; the
   conformance step executes every case on SQLite and compares.

   A case: op (insert | update), api, primary key kind, default kinds of the two columns x and y, 1..3 rows, each
   saying for x and y whether the caller supplies a value ("val"), supplies None ("null") or leaves the key out ("omit").
   Row r carries k = r (insert) / addresses the existing row k = r (update; it holds x = 1, y = 2 before).

   Values (also in checks/insertmany_defaults.py):  NULL = 0
     supplied x: 10r+1  y: 10r+2      scalar  x: 91 y: 92 (onupdate 93 / 94)     SQL expression  x: 71 y: 72 (onupdate 73 / 74)
     callable x: 100+c y: 200+c (onupdate 500+c / 600+c), c = how many times the function has been called, this call included
     context-sensitive x: 300+r y: 400+r (onupdate 700+r / 800+r), r read from the statement's current parameters

   Named deviations (places where the code, by documented design, does not follow the naive reading):
     FirstSetFixesColumns   Core executemany: the FIRST parameter set fixes the column list; a later set that lacks one of
                            those keys raises StatementError (nothing executed), a later set with an EXTRA key has it ignored
                            (the default is applied although a value was passed)
     MultiValuesDropsColumn insert().values([..]): a column absent from the first dict and without any default is not part
                            of the statement; later dicts' values for it are ignored.  A column present in the first dict,
                            absent later and without default: CompileError
     OrmNoneIsOmitted       ORM INSERT (unit of work and bulk): an attribute that is None is left out of the INSERT so
                            that the default fires ("Forcing NULL on a column with a default" - use sql.null()) *)
EXTENDS Integers, Sequences, FiniteSets, TLC, Json
CONSTANTS Pairs1, Pairs2, Pairs3,   \* kind pairs (numbers 0..24 = 5 * x kind + y kind, see KindSeq) explored with 1 / 2 / 3 rows
          InsertApis, UpdateApis
VARIABLES case, exp
vars == <<case, exp>>

Cols == {"x", "y"}
KindSeq == <<"scalar", "callable", "ctx", "sql", "none">>
XKind(p) == KindSeq[(p \div 5) + 1]
YKind(p) == KindSeq[(p % 5) + 1]
Supply == {"val", "null", "omit"}
Null == 0
Val(c, r) == 10 * r + (IF c = "x" THEN 1 ELSE 2)
Initial(c) == IF c = "x" THEN 1 ELSE 2
Scalar(op, c) == IF op = "insert" THEN (IF c = "x" THEN 91 ELSE 92) ELSE (IF c = "x" THEN 93 ELSE 94)
SqlVal(op, c) == IF op = "insert" THEN (IF c = "x" THEN 71 ELSE 72) ELSE (IF c = "x" THEN 73 ELSE 74)
CallBase(op, c) == IF op = "insert" THEN (IF c = "x" THEN 100 ELSE 200) ELSE (IF c = "x" THEN 500 ELSE 600)
CtxBase(op, c) == IF op = "insert" THEN (IF c = "x" THEN 300 ELSE 400) ELSE (IF c = "x" THEN 700 ELSE 800)

Kind(cs, c) == IF c = "x" THEN cs.xk ELSE cs.yk
N(cs) == Len(cs.rows)
Given(cs, r, c) == cs.rows[r][c]
ParamsApi(api) == api \in {"core_params", "core_return_defaults", "core_returning"}
OrmInsert(cs) == cs.op = "insert" /\ cs.api \in {"orm_flush", "orm_bulk", "orm_bulk_returning"}

\* ------------------------------------------------------------------ mechanism
\* the columns the compiled statement binds from the caller's parameters: keys of the first parameter set / first dict
Cols0(cs) == {c \in Cols : Given(cs, 1, c) # "omit"}
MissingKey(cs) == ParamsApi(cs.api) /\ \E r \in 2..N(cs), c \in Cols0(cs) : Given(cs, r, c) = "omit"
CompileErr(cs) == cs.api = "core_multivalues" /\ \E r \in 2..N(cs), c \in Cols0(cs) : Given(cs, r, c) = "omit" /\ Kind(cs, c) = "none"
Exc(cs) == IF MissingKey(cs) THEN "StatementError" ELSE IF CompileErr(cs) THEN "CompileError" ELSE "none"
\* what the mechanism takes the caller to have said for row r, column c
Eff(cs, r, c) ==
  LET g == Given(cs, r, c) IN
  IF ParamsApi(cs.api) THEN (IF c \in Cols0(cs) THEN g ELSE "omit")
  ELSE IF cs.api = "core_multivalues" THEN (IF c \notin Cols0(cs) /\ Kind(cs, c) = "none" THEN "omit" ELSE g)
  ELSE IF OrmInsert(cs) /\ g = "null" THEN "omit"
  ELSE g
\* _process_execute_defaults walks the parameter sets in order: the c-th call of a callable belongs to the c-th defaulted row
NOmitUpTo(cs, r, c) == Cardinality({q \in 1..r : Eff(cs, q, c) = "omit"})
Stored(cs, r, c) ==
  LET e == Eff(cs, r, c)
      k == Kind(cs, c)
  IN IF e = "val" THEN Val(c, r)
     ELSE IF e = "null" THEN Null
     ELSE IF k = "scalar" THEN Scalar(cs.op, c)
     ELSE IF k = "callable" THEN CallBase(cs.op, c) + NOmitUpTo(cs, r, c)
     ELSE IF k = "ctx" THEN CtxBase(cs.op, c) + r
     ELSE IF k = "sql" THEN SqlVal(cs.op, c)
     ELSE IF cs.op = "insert" THEN Null ELSE Initial(c)
Calls(cs, c) == IF Kind(cs, c) \in {"callable", "ctx"} THEN NOmitUpTo(cs, N(cs), c) ELSE 0
Expected(cs) ==
  LET bad == Exc(cs) # "none" IN
  [exc |-> Exc(cs),
   stored |-> IF bad THEN (IF cs.op = "insert" THEN <<>> ELSE [r \in 1..N(cs) |-> <<Initial("x"), Initial("y")>>])
              ELSE [r \in 1..N(cs) |-> <<Stored(cs, r, "x"), Stored(cs, r, "y")>>],
   calls |-> [x |-> IF bad THEN 0 ELSE Calls(cs, "x"), y |-> IF bad THEN 0 ELSE Calls(cs, "y")],
   ids |-> IF bad /\ cs.op = "insert" THEN <<>> ELSE [r \in 1..N(cs) |-> IF cs.pk = "callable" THEN 40 + r ELSE r],
   \* which cells hold a default (used by the harness to check returned_defaults / prefetch bookkeeping)
   dflt |-> [r \in 1..N(cs) |-> <<~bad /\ Eff(cs, r, "x") = "omit", ~bad /\ Eff(cs, r, "y") = "omit">>]]

\* ------------------------------------------------------------------ cases
RowSets(n) == [1..n -> [x : Supply, y : Supply]]
\* (IF-THEN-ELSE throughout: a disjunction / implication in Init makes TLC generate the same initial state once per true disjunct)
ApiOK(op, api, n) ==
  IF op = "insert"
  THEN IF api \notin InsertApis THEN FALSE
       ELSE IF api = "core_values" THEN n = 1
       ELSE IF api = "core_multivalues" THEN n >= 2
       ELSE TRUE
  ELSE IF api \notin UpdateApis THEN FALSE
       ELSE IF api \in {"core_return_defaults", "core_returning"} THEN n = 1
       ELSE TRUE
PkOK(op, api, pk, xk, yk) == IF pk = "auto" THEN TRUE
                             ELSE op = "insert" /\ api \in {"core_params", "core_return_defaults", "orm_flush", "orm_bulk"} /\ yk = "none"
MkCase(op, api, pk, kp, rows) == [op |-> op, api |-> api, pk |-> pk, xk |-> XKind(kp), yk |-> YKind(kp), rows |-> rows]
Emit == exp = Expected(case) /\ PrintT(ToJson([case |-> case, exp |-> exp]))
PairsFor(n) == IF n = 1 THEN Pairs1 ELSE IF n = 2 THEN Pairs2 ELSE Pairs3
Init == \E op \in {"insert", "update"} : \E api \in InsertApis \cup UpdateApis : \E n \in 1..3 :
          /\ ApiOK(op, api, n)
          /\ \E pk \in {"auto", "callable"} : \E kp \in PairsFor(n) :
                /\ PkOK(op, api, pk, XKind(kp), YKind(kp))
                /\ \E rows \in RowSets(n) : case = MkCase(op, api, pk, kp, rows) /\ Emit
Stutter == UNCHANGED vars

\* ------------------------------------------------------------------ the property (C13), in its own words
Ci(c) == IF c = "x" THEN 1 ELSE 2
Cell(r, c) == exp.stored[r][Ci(c)]
\* the named deviations, cell by cell
DevExtraKeyIgnored(r, c) == ParamsApi(case.api) /\ c \notin Cols0(case) /\ Given(case, r, c) # "omit"
DevColumnDropped(r, c) == case.api = "core_multivalues" /\ c \notin Cols0(case) /\ Kind(case, c) = "none" /\ Given(case, r, c) # "omit"
DevOrmNone(r, c) == OrmInsert(case) /\ Given(case, r, c) = "null"
Deviates(r, c) == DevExtraKeyIgnored(r, c) \/ DevColumnDropped(r, c) \/ DevOrmNone(r, c)
\* "no value for that column is supplied" for row r
DefaultApplies(r, c) == Given(case, r, c) = "omit" \/ Deviates(r, c)
Rank(r, c) == Cardinality({q \in 1..r : DefaultApplies(q, c)})
DefaultValue(r, c) ==
  LET k == Kind(case, c) IN
  IF k = "scalar" THEN Scalar(case.op, c)
  ELSE IF k = "callable" THEN CallBase(case.op, c) + Rank(r, c)
  ELSE IF k = "ctx" THEN CtxBase(case.op, c) + r
  ELSE IF k = "sql" THEN SqlVal(case.op, c)
  ELSE IF case.op = "insert" THEN Null ELSE Initial(c)
Ok == exp.exc = "none"
\* the default / onupdate is applied to a row exactly when no value for that column is supplied
AppliedIffOmitted == Ok => \A r \in 1..N(case), c \in Cols :
                             (DefaultApplies(r, c) <=> exp.dflt[r][Ci(c)]) /\ (DefaultApplies(r, c) => Cell(r, c) = DefaultValue(r, c))
\* a supplied value, including None, is never overridden (outside the named deviations)
SuppliedNeverOverridden == Ok => \A r \in 1..N(case), c \in Cols :
                             ~Deviates(r, c) => /\ Given(case, r, c) = "val" => Cell(r, c) = Val(c, r)
                                                /\ Given(case, r, c) = "null" => Cell(r, c) = Null
\* once per row: a Python-side default is called as many times as there are rows it applies to, and no two rows share a call
OncePerRow == Ok => \A c \in Cols :
                /\ Kind(case, c) \in {"callable", "ctx"} => exp.calls[c] = Rank(N(case), c)
                /\ Kind(case, c) \notin {"callable", "ctx"} => exp.calls[c] = 0
                /\ Kind(case, c) = "callable" => \A r, q \in 1..N(case) : (r < q /\ DefaultApplies(r, c) /\ DefaultApplies(q, c)) => Cell(r, c) < Cell(q, c)
\* an error is raised only in the documented situations, and then nothing is stored / changed and no default was called
ErrorsOnlyWhenDocumented ==
  ~Ok => /\ N(case) >= 2 /\ \E r \in 2..N(case), c \in Cols : Given(case, 1, c) # "omit" /\ Given(case, r, c) = "omit"
         /\ exp.calls.x = 0 /\ exp.calls.y = 0
         /\ (case.op = "insert" => exp.stored = <<>>)
         /\ (case.op = "update" => \A r \in 1..N(case) : exp.stored[r] = <<Initial("x"), Initial("y")>>)
\* inserted primary keys: one per row, distinct
KeysDistinct == \A r, q \in 1..Len(exp.ids) : r # q => exp.ids[r] # exp.ids[q]
=============================================================================
