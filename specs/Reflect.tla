---------------------------- MODULE Reflect ----------------------------
(* C15 (SQLite clause): reflection reproduces the schema that was created.

   A table DEFINITION is a record
     [schema, tname, cols : Seq([name, type, nullable, default]), pk : Seq(name), pkname,
      fks : SUBSET [name, cols, rtable, rcols, ondelete, onupdate], uqs : SUBSET [name, cols], ixs : SUBSET [name, unique, cols], pstyle]
   (an empty string = "not given").  The referred table ("parent") is a fixed definition per naming style PStyle:
   p1 INTEGER PRIMARY KEY, p2 INTEGER, p3 VARCHAR(5), UNIQUE (p2, p3).
   Norm(d) = the definition that reflection (Inspector.get_* and Table(autoload_with=...)) is REQUIRED to give back for d on
   SQLite: dialects/sqlite/base.py get_columns/_resolve_type_affinity (Refl), get_pk_constraint, get_foreign_keys (NO ACTION is the
   absent option), get_unique_constraints, get_indexes, and PRAGMA table_info's rendering of a DEFAULT (NormDefault).
   TLC takes every definition of the bounded family (Mode) as an initial state and checks
     Preserved : Norm(d) says the same as d in the property's own words (names and order, type affinity and arguments,
                 nullability, primary key, foreign keys with referred columns and ON DELETE/UPDATE, unique constraints, indexes,
                 server default VALUE),
     Recreate  : Norm(Norm(d)) = Norm(d)      (a reflected and re-created table reflects identically),
     WellNorm  : Norm(d) is a well-formed definition; a single INTEGER primary key is the rowid alias; nothing is reported both
                 as unique constraint and as index,
   and prints one case (d, Norm(d), affinities) per state; checks/c15.py executes every case against SQLite.
   Modes: col | pk | fk1 | fk2 | uq | ix | all | self (foreign key to the table itself) | lit (a string DEFAULT whose text reads like
   a constraint clause: data, not schema - Norm leaves the constraints alone).  PostgreSQL / MariaDB are out of reach (bound). *)
EXTENDS Integers, Sequences, FiniteSets, TLC, Json
CONSTANTS Mode, Styles, PStyles, Schemas,
          Shapes        \* Mode col: 1 = the rich column alone, 2 = followed by a plain column, 3 = after a plain column
VARIABLES d, done
vars == <<d, done>>
Range(s) == {s[i] : i \in 1..Len(s)}
InjSeqs(S, lo, hi) == {p \in UNION {[1..k -> S] : k \in lo..hi} : \A i, j \in DOMAIN p : i # j => p[i] # p[j]}
\* ---------------- names ----------------
CN(st) == CASE st = "plain" -> <<"a", "b", "c">>
            [] st = "space" -> <<"a b", "b-c", "c.d">>            \* need delimiting
            [] st = "reserved" -> <<"select", "order", "table">>
            [] st = "mixed" -> <<"MixA", "camelB", "UPPER">>
            [] st = "kw" -> <<"unique", "primary", "references">>    \* words the CREATE TABLE regular expressions look for
            [] st = "bag" -> <<"a", "Order By", "key">>
TN(st) == CASE st = "plain" -> "child" [] st = "space" -> "child tbl" [] st = "reserved" -> "group" [] st = "mixed" -> "ChildT"
            [] st = "kw" -> "constraint" [] st = "bag" -> "child"
PN(ps) == CASE ps = "plain" -> "parent" [] ps = "space" -> "par ent" [] ps = "reserved" -> "order" [] ps = "mixed" -> "ParenT"
PC(ps) == CASE ps = "plain" -> <<"p1", "p2", "p3">> [] ps = "space" -> <<"p 1", "p-2", "p.3">>
            [] ps = "reserved" -> <<"from", "where", "index">> [] ps = "mixed" -> <<"Pid", "pTwo", "P3">>
\* ---------------- types: what is declared -> what get_columns gives back (ischema_names / _resolve_type_affinity) ----------------
Generic == {"Integer", "BigInteger", "SmallInteger", "String5", "String", "Unicode7", "Text", "Numeric10_2", "Numeric",
            "Boolean", "Float", "Double", "DateTime", "Date", "Time", "LargeBinary", "JSON"}
Native == {"INTEGER", "BIGINT", "SMALLINT", "VARCHAR5", "VARCHAR", "VARCHAR7", "TEXT", "NUMERIC10_2", "NUMERIC", "BOOLEAN",
           "FLOAT", "DOUBLE", "DATETIME", "DATE", "TIME", "BLOB", "JSON_", "CHAR3", "DECIMAL8_3", "REAL"}
Refl(t) == CASE t = "Integer" -> "INTEGER" [] t = "BigInteger" -> "BIGINT" [] t = "SmallInteger" -> "SMALLINT"
             [] t = "String5" -> "VARCHAR5" [] t = "String" -> "VARCHAR" [] t = "Unicode7" -> "VARCHAR7" [] t = "Text" -> "TEXT"
             [] t = "Numeric10_2" -> "NUMERIC10_2" [] t = "Numeric" -> "NUMERIC" [] t = "Boolean" -> "BOOLEAN"
             [] t = "Float" -> "FLOAT" [] t = "Double" -> "DOUBLE" [] t = "DateTime" -> "DATETIME" [] t = "Date" -> "DATE"
             [] t = "Time" -> "TIME" [] t = "LargeBinary" -> "BLOB" [] t = "JSON" -> "JSON_"
             [] OTHER -> t                                   \* a native type is given back as itself
\* TypeEngine._type_affinity (class name) and the arguments that must survive
Aff(t) == CASE t \in {"Integer", "BigInteger", "SmallInteger", "INTEGER", "BIGINT", "SMALLINT"} -> "Integer"
            [] t \in {"String5", "String", "Unicode7", "Text", "VARCHAR5", "VARCHAR", "VARCHAR7", "TEXT", "CHAR3"} -> "String"
            [] t \in {"Numeric10_2", "Numeric", "NUMERIC10_2", "NUMERIC", "DECIMAL8_3"} -> "Numeric"
            [] t \in {"Boolean", "BOOLEAN"} -> "Boolean"
            [] t \in {"Float", "Double", "FLOAT", "DOUBLE", "REAL"} -> "Float"
            [] t \in {"DateTime", "DATETIME"} -> "DateTime" [] t \in {"Date", "DATE"} -> "Date" [] t \in {"Time", "TIME"} -> "Time"
            [] t \in {"LargeBinary", "BLOB"} -> "_Binary" [] t \in {"JSON", "JSON_"} -> "JSON"
Args(t) == CASE t \in {"String5", "VARCHAR5"} -> <<5>> [] t \in {"Unicode7", "VARCHAR7"} -> <<7>> [] t = "CHAR3" -> <<3>>
             [] t \in {"Numeric10_2", "NUMERIC10_2"} -> <<10, 2>> [] t = "DECIMAL8_3" -> <<8, 3>> [] OTHER -> << >>
\* ---------------- server defaults ----------------
\* k = "str": a Python string (rendered as a quoted literal); k = "text": SQL text given with text()
NoDef == [k |-> "none", s |-> ""]
DStr(s) == [k |-> "str", s |-> s]
DText(s) == [k |-> "text", s |-> s]
Lit(s) == CASE s = "xy" -> "'xy'" [] s = "x'y" -> "'x''y'" [] s = "5" -> "'5'" [] s = "" -> "''" [] s = "a, b" -> "'a, b'"
            [] s = "x (y" -> "'x (y'"
            [] s = "x, UNIQUE (b)" -> "'x, UNIQUE (b)'" [] s = "CONSTRAINT zz PRIMARY KEY" -> "'CONSTRAINT zz PRIMARY KEY'"
            [] s = "CONSTRAINT zz FOREIGN KEY(b) REFERENCES parent (p1) ON DELETE CASCADE"
                 -> "'CONSTRAINT zz FOREIGN KEY(b) REFERENCES parent (p1) ON DELETE CASCADE'"
\* PRAGMA table_info gives the expression text as written, without the parentheses that enclose a DEFAULT (expr)
Unparen(s) == CASE s = "(1 + 2)" -> "1 + 2" [] s = "(-1)" -> "-1" [] s = "('p')" -> "'p'" [] OTHER -> s
NormDefault(x) == IF x.k = "none" THEN x ELSE IF x.k = "str" THEN DText(Lit(x.s)) ELSE DText(Unparen(x.s))
\* the VALUE a default stands for (declarative side)
DVal(x) == IF x.k = "none" THEN <<"none", "">> ELSE IF x.k = "str" THEN <<"string", x.s>>
           ELSE CASE x.s = "'xy'" -> <<"string", "xy">> [] x.s = "'x''y'" -> <<"string", "x'y">> [] x.s = "'5'" -> <<"string", "5">>
                  [] x.s = "''" -> <<"string", "">> [] x.s = "'a, b'" -> <<"string", "a, b">> [] x.s = "'x (y'" -> <<"string", "x (y">>
                  [] x.s \in {"'p'", "('p')"} -> <<"string", "p">>
                  [] x.s = "'x, UNIQUE (b)'" -> <<"string", "x, UNIQUE (b)">>
                  [] x.s = "'CONSTRAINT zz PRIMARY KEY'" -> <<"string", "CONSTRAINT zz PRIMARY KEY">>
                  [] x.s = "'CONSTRAINT zz FOREIGN KEY(b) REFERENCES parent (p1) ON DELETE CASCADE'"
                       -> <<"string", "CONSTRAINT zz FOREIGN KEY(b) REFERENCES parent (p1) ON DELETE CASCADE">>
                  [] x.s \in {"1 + 2", "(1 + 2)"} -> <<"expr", "1 + 2">>
                  [] x.s \in {"-1", "(-1)"} -> <<"num", "-1">>
                  [] OTHER -> <<"sql", x.s>>
Defaults == {NoDef, DStr("xy"), DStr("x'y"), DStr("5"), DStr(""), DStr("a, b"), DStr("x (y"), DText("0"), DText("-1"), DText("(-1)"),
             DText("1.5"), DText("1 + 2"), DText("(1 + 2)"), DText("('p')"), DText("'p'"), DText("CURRENT_TIMESTAMP"), DText("NULL"),
             DText("TRUE")}
\* ---------------- Norm ----------------
NoAct(o) == IF o = "NO ACTION" THEN "" ELSE o           \* get_foreign_keys: NO ACTION (the default action) is not reported
NormCol(c) == [name |-> c.name, type |-> Refl(c.type), nullable |-> c.nullable, default |-> NormDefault(c.default)]
NormFk(f) == [f EXCEPT !.ondelete = NoAct(@), !.onupdate = NoAct(@)]
Norm(x) == [x EXCEPT !.cols = [i \in DOMAIN x.cols |-> NormCol(x.cols[i])],
                     !.fks = {NormFk(f) : f \in x.fks}]
\* ---------------- the property, declaratively ----------------
ColNames(x) == [i \in DOMAIN x.cols |-> x.cols[i].name]
SameFk(f, g) == f.name = g.name /\ f.cols = g.cols /\ f.rtable = g.rtable /\ f.rcols = g.rcols
                /\ NoAct(f.ondelete) = NoAct(g.ondelete) /\ NoAct(f.onupdate) = NoAct(g.onupdate)
Preserved(x, n) ==
   /\ x.schema = n.schema /\ x.tname = n.tname
   /\ ColNames(x) = ColNames(n)                                                         \* names and order
   /\ \A i \in DOMAIN x.cols : /\ Aff(x.cols[i].type) = Aff(n.cols[i].type)             \* type affinity
                               /\ Args(x.cols[i].type) = Args(n.cols[i].type)
                               /\ x.cols[i].nullable = n.cols[i].nullable                \* nullability
                               /\ DVal(x.cols[i].default) = DVal(n.cols[i].default)      \* server default
   /\ x.pk = n.pk /\ x.pkname = n.pkname                                                \* primary key (ordered)
   /\ (\A f \in x.fks : \E g \in n.fks : SameFk(f, g)) /\ (\A g \in n.fks : \E f \in x.fks : SameFk(f, g))
   /\ Cardinality(x.fks) = Cardinality(n.fks)
   /\ x.uqs = n.uqs /\ x.ixs = n.ixs
WellFormed(x) ==
   /\ Len(x.cols) >= 1 /\ \A i, j \in DOMAIN x.cols : i # j => x.cols[i].name # x.cols[j].name
   /\ Range(x.pk) \subseteq Range(ColNames(x)) /\ (x.pk = << >> => x.pkname = "")
   /\ \A f \in x.fks : Range(f.cols) \subseteq Range(ColNames(x)) /\ Len(f.cols) = Len(f.rcols) /\ Len(f.cols) >= 1
   /\ \A f, g \in x.fks : f # g => (<<f.cols, f.rcols>> # <<g.cols, g.rcols>> /\ (f.name # "" => f.name # g.name))
   /\ \A u \in x.uqs : Range(u.cols) \subseteq Range(ColNames(x)) /\ Len(u.cols) >= 1
   /\ \A u, v \in x.uqs : u # v => (u.cols # v.cols /\ (u.name # "" => u.name # v.name))
   /\ \A u \in x.ixs : Range(u.cols) \subseteq Range(ColNames(x)) /\ Len(u.cols) >= 1 /\ u.name # ""
   /\ \A u, v \in x.ixs : u # v => u.name # v.name
   /\ \A u \in x.ixs : \A v \in x.uqs : u.name # v.name
   /\ \A u \in x.ixs : \A f \in x.fks : u.name # f.name
   /\ \A u \in x.uqs : \A f \in x.fks : u.name # "" => u.name # f.name
   /\ \A u \in x.uqs : u.name # "" => u.name # x.pkname
   /\ \A f \in x.fks : f.name # "" => f.name # x.pkname
\* a single INTEGER primary key column is the rowid alias: SQLite builds no index for it
ColOf(x, nm) == x.cols[CHOOSE i \in DOMAIN x.cols : x.cols[i].name = nm]
RowidAlias(x) == Len(x.pk) = 1 /\ ColOf(x, x.pk[1]).type \in {"Integer", "INTEGER"}
NativeOnly(x) == \A i \in DOMAIN x.cols : x.cols[i].type \in Native /\ x.cols[i].default.k # "str"
PreservedOK == Preserved(d, Norm(d))
Recreate == Norm(Norm(d)) = Norm(d) /\ Preserved(Norm(d), Norm(Norm(d)))
WellNorm == WellFormed(Norm(d)) /\ NativeOnly(Norm(d)) /\ (RowidAlias(d) <=> RowidAlias(Norm(d)))
            /\ \A f \in Norm(d).fks : f.ondelete # "NO ACTION" /\ f.onupdate # "NO ACTION"
\* ---------------- the bounded family ----------------
Col(n, t, nl, df) == [name |-> n, type |-> t, nullable |-> nl, default |-> df]
Def(sc, st, cols, pk, pkname, fks, uqs, ixs, ps) ==
   [schema |-> sc, tname |-> TN(st), cols |-> cols, pk |-> pk, pkname |-> pkname, fks |-> fks, uqs |-> uqs, ixs |-> ixs,
    pstyle |-> ps, parent |-> [name |-> PN(ps), cols |-> PC(ps)]]
Fk(nm, cs, ps, rcs, od, ou) == [name |-> nm, cols |-> cs, rtable |-> PN(ps), rcols |-> rcs, ondelete |-> od, onupdate |-> ou]
Acts == {"", "CASCADE", "SET NULL", "SET DEFAULT", "RESTRICT", "NO ACTION"}
Types == Generic \cup {"CHAR3", "DECIMAL8_3", "REAL", "INTEGER"}
Std3(st, nl) == <<Col(CN(st)[1], "Integer", nl, NoDef), Col(CN(st)[2], "String5", nl, NoDef), Col(CN(st)[3], "Integer", TRUE, NoDef)>>
PkOpts(st) == {<< >>, <<CN(st)[1]>>, <<CN(st)[2]>>, <<CN(st)[1], CN(st)[2]>>, <<CN(st)[2], CN(st)[1]>>}
\* foreign key shapes: (constrained columns, referred columns) over the child's and parent's three names
FkShapes(st, ps) == LET c == CN(st) p == PC(ps) IN
   {<<<<c[1]>>, <<p[1]>>>>, <<<<c[3]>>, <<p[1]>>>>, <<<<c[2]>>, <<p[3]>>>>, <<<<c[3]>>, <<p[2]>>>>,
    <<<<c[1], c[2]>>, <<p[2], p[3]>>>>, <<<<c[2], c[1]>>, <<p[3], p[2]>>>>, <<<<c[3], c[2]>>, <<p[2], p[3]>>>>,
    <<<<c[1], c[2], c[3]>>, <<p[1], p[3], p[2]>>>>}
FkNames == {"", "fk_1", "fk 1", "FkOne"}
UqCols(st) == InjSeqs(Range(CN(st)), 1, 2) \cup {CN(st)}
UqNames == {"", "uq_1", "uq 1", "Unique"}
IxNames == {"ix_1", "ix 1", "Index"}
FamCol(sc, st, ps) ==         \* one column over every type x nullable x default, alone / before / after a plain column, in or out of the pk
   {Def(sc, st, cols, pk, "", {}, {}, {}, "plain") :
       cols \in {CASE sh = 1 -> <<Col(CN(st)[1], t, nl, df)>>
                   [] sh = 2 -> <<Col(CN(st)[1], t, nl, df), Col(CN(st)[2], "Integer", TRUE, DText("0"))>>
                   [] sh = 3 -> <<Col(CN(st)[1], "Integer", TRUE, DStr("xy")), Col(CN(st)[2], t, nl, df)>>
                  : sh \in Shapes, t \in Types, nl \in BOOLEAN, df \in Defaults},
       pk \in {<< >>, <<CN(st)[1]>>, <<CN(st)[2]>>, <<CN(st)[2], CN(st)[1]>>}}
FamPk(sc, st, ps) ==          \* 1..3 columns INTEGER / VARCHAR, every ordered primary key, named or not, nullable given explicitly
   {Def(sc, st, cols, pk, pkn, {}, {}, {}, "plain") : pkn \in {"", "pk_1", "pk 1", "PkOne"},
       cols \in UNION {{[i \in 1..n |-> Col(CN(st)[i], ts[i], nl, NoDef)] : ts \in [1..n -> {"Integer", "String5"}], nl \in BOOLEAN}
                       : n \in 1..3},
       pk \in InjSeqs(Range(CN(st)), 0, 3)}
FamFk1(sc, st, ps) ==         \* one foreign key: every shape x ON DELETE x ON UPDATE x name
   {Def(sc, st, Std3(st, TRUE), << >>, "", {Fk(nm, sh[1], ps, sh[2], od, ou)}, {}, {}, ps) :
       nm \in FkNames, sh \in FkShapes(st, ps), od \in Acts, ou \in Acts}
FamFk2(sc, st, ps) ==         \* two foreign keys
   {Def(sc, st, Std3(st, TRUE), pk, "", {Fk(nm, sh[1], ps, sh[2], o[1], o[2]), Fk(nm2, sh2[1], ps, sh2[2], o2[1], o2[2])}, {}, {}, ps) :
       nm \in FkNames, sh \in FkShapes(st, ps), pk \in {<< >>, <<CN(st)[1]>>},
       o \in {<<"", "">>, <<"CASCADE", "SET NULL">>}, nm2 \in {"", "fk_2"}, sh2 \in FkShapes(st, ps),
       o2 \in {<<"", "">>, <<"SET DEFAULT", "NO ACTION">>, <<"", "RESTRICT">>}}
FamUq(sc, st, ps) ==          \* zero to two unique constraints, against every primary key shape
   {Def(sc, st, Std3(st, nl), pk, "", {}, uqs, {}, "plain") : nl \in BOOLEAN, pk \in PkOpts(st),
       uqs \in {{}} \cup {{[name |-> nm, cols |-> cs]} : nm \in UqNames, cs \in UqCols(st)}
              \cup {{[name |-> nm, cols |-> cs], [name |-> nm2, cols |-> cs2]} : nm \in UqNames, cs \in UqCols(st),
                      nm2 \in {"", "uq_2"}, cs2 \in {<<CN(st)[1]>>, <<CN(st)[2], CN(st)[1]>>, <<CN(st)[3], CN(st)[2]>>}}}
FamIx(sc, st, ps) ==          \* one or two indexes (unique or not), next to a unique constraint on the same / other columns
   {Def(sc, st, Std3(st, TRUE), pk, "", {}, uqs, ixs, "plain") : pk \in {<< >>, <<CN(st)[1]>>, <<CN(st)[2]>>},
       uqs \in {{}, {[name |-> "", cols |-> <<CN(st)[1]>>]}, {[name |-> "uq_1", cols |-> <<CN(st)[2], CN(st)[1]>>]}},
       ixs \in {{[name |-> nm, unique |-> uq, cols |-> cs]} : nm \in IxNames, uq \in BOOLEAN, cs \in UqCols(st)}
              \cup {{[name |-> nm, unique |-> uq, cols |-> cs], [name |-> "ix_2", unique |-> uq2, cols |-> cs2]} :
                      nm \in IxNames, uq \in BOOLEAN, cs \in {<<CN(st)[1]>>, <<CN(st)[2], CN(st)[1]>>, <<CN(st)[1], CN(st)[2]>>},
                      uq2 \in BOOLEAN, cs2 \in {<<CN(st)[1]>>, <<CN(st)[2], CN(st)[1]>>, <<CN(st)[3]>>}}}
FamAll(sc, st, ps) ==         \* everything at once: defaults + named pk + foreign key + unique + index
   {Def(sc, st, <<Col(CN(st)[1], t1, FALSE, NoDef), Col(CN(st)[2], "String5", nl, df), Col(CN(st)[3], "Numeric10_2", TRUE, DText("(1 + 2)"))>>,
        pk, "pk_1", {Fk(nm, sh[1], ps, sh[2], "CASCADE", "NO ACTION")}, {[name |-> un, cols |-> uc]},
        {[name |-> "ix 1", unique |-> iu, cols |-> ic]}, ps) :
       t1 \in {"Integer", "BigInteger"}, nl \in BOOLEAN, df \in {NoDef, DStr("x'y")},
       pk \in {<<CN(st)[1]>>, <<CN(st)[1], CN(st)[2]>>}, nm \in {"", "fk 1"}, sh \in FkShapes(st, ps),
       un \in {"", "Unique"}, uc \in {<<CN(st)[2]>>, <<CN(st)[3], CN(st)[1]>>}, iu \in BOOLEAN, ic \in {<<CN(st)[2]>>, <<CN(st)[1], CN(st)[3]>>}}
\* a string DEFAULT whose text reads like a constraint clause of this very table: it is data, not schema (style plain only)
DdlLike == {"x, UNIQUE (b)", "CONSTRAINT zz PRIMARY KEY", "CONSTRAINT zz FOREIGN KEY(b) REFERENCES parent (p1) ON DELETE CASCADE"}
FamLit(sc, st, ps) ==
   {Def(sc, "plain", <<Col("a", "String", TRUE, DStr(adv)), Col("b", t, nl, NoDef)>>, pk, pkn, fks, uqs, {}, "plain") :
       adv \in DdlLike \cup {"xy"}, t \in {"String5", "Integer"}, nl \in BOOLEAN, pk \in {<< >>, <<"b">>, <<"a">>, <<"b", "a">>},
       pkn \in {"", "pk_1"}, uqs \in {{}, {[name |-> "uq_1", cols |-> <<"b">>]}, {[name |-> "", cols |-> <<"a">>]}},
       fks \in {{}, {Fk("", <<"b">>, "plain", <<"p1">>, "", "")}, {Fk("fk_1", <<"b">>, "plain", <<"p1">>, "SET NULL", "")}}}
\* a foreign key to the table itself (single / composite), next to one to the parent
FamSelf(sc, st, ps) ==
   {Def(sc, st, Std3(st, FALSE), pk, "", fks, {[name |-> "", cols |-> <<CN(st)[1], CN(st)[2]>>]}, {}, ps) :
       pk \in {<<CN(st)[1]>>, <<CN(st)[1], CN(st)[2]>>},
       fks \in UNION {{ {[name |-> nm, cols |-> sh[1], rtable |-> TN(st), rcols |-> sh[2], ondelete |-> od, onupdate |-> ou]},
                        {[name |-> nm, cols |-> sh[1], rtable |-> TN(st), rcols |-> sh[2], ondelete |-> od, onupdate |-> ou],
                         Fk("fk_p", <<CN(st)[3]>>, ps, <<PC(ps)[1]>>, ou, od)} }
                      : nm \in FkNames, od \in Acts, ou \in {"", "CASCADE", "NO ACTION"},
                        sh \in {<<<<CN(st)[3]>>, <<CN(st)[1]>>>>, <<<<CN(st)[3], CN(st)[2]>>, <<CN(st)[1], CN(st)[2]>>>>,
                                 <<<<CN(st)[2], CN(st)[3]>>, <<CN(st)[2], CN(st)[1]>>>>}}}
Fam(sc, st, ps) == CASE Mode = "col" -> FamCol(sc, st, ps) [] Mode = "pk" -> FamPk(sc, st, ps) [] Mode = "fk1" -> FamFk1(sc, st, ps)
                     [] Mode = "fk2" -> FamFk2(sc, st, ps) [] Mode = "uq" -> FamUq(sc, st, ps) [] Mode = "ix" -> FamIx(sc, st, ps)
                     [] Mode = "all" -> FamAll(sc, st, ps) [] Mode = "lit" -> FamLit(sc, st, ps) [] Mode = "self" -> FamSelf(sc, st, ps)
Family == UNION {Fam(sc, st, ps) : sc \in Schemas, st \in Styles, ps \in PStyles}
Init == d \in {z \in Family : WellFormed(z)} /\ done = FALSE
Case(z) == [mode |-> Mode, d |-> z, norm |-> Norm(z), affs |-> [i \in DOMAIN z.cols |-> Aff(z.cols[i].type)],
            args |-> [i \in DOMAIN z.cols |-> Args(z.cols[i].type)], rowid |-> RowidAlias(z)]
InitEmit == Init /\ PrintT(ToJson(Case(d)))
Next == ~done /\ done' = TRUE /\ UNCHANGED d
Stutter == UNCHANGED vars
Spec == Init /\ [][Next]_vars
=============================================================================
