---------------------------- MODULE Events ----------------------------
(* C28 "Event listeners fire exactly as registered" - histories part.

   MECHANISM layer (transcribed from lib/sqlalchemy/event/{attr,registry,base}.py, one event name):
     cpar        Shape "chain":   classes 1=Base 2=A(Base) 3=B(A) 4=C(cpar), cpar = parent of the late-created class C
                 Shape "diamond": classes 1=Base 2=L(Base) 3=R(Base) 4=M, the late class with TWO bases: cpar = 23 for M(L, R),
                                  32 for M(R, L); 0 = not created yet
     clin, cl    _ClsLevelDispatch._clslevel: which classes have a deque, and its contents (listener fns)
     inst[k]     target instance k (targets 11, 12): its class, the kind of collection behind `inst.dispatch.ev`
                 ("empty" = _EmptyListener, "coll" = _ListenerCollection; for a joined instance the kind of
                 _JoinedListener.local), .listeners deque, .propagate set, _exec_once flag, join parent
     wr[f]       the wrapper chain listen() built around fn f: util.only_once state (0 none / 1 armed / 2 spent),
                 named (_wrap_fn_for_kw), retval (the Events class' own _listen wrapper)
     k2c, c2k    registry._key_to_collection / _collection_to_key as sets of <<target, fn, owner>>
                 (owner 0 = the _ClsLevelDispatch, k = instance k's _ListenerCollection)
   ABSTRACT layer:
     log         the registrations still in force, in registration order ("reg" entries), plus "upd" entries for
                 _Dispatch._update (instance -> instance propagation, the only thing propagate=True means)
   The invariants state that what the mechanism would call (IterSeq) is what the log says (the Abs.. operators).

   Domain restriction (the statement does not define the alternative): a function is registered on at most one
   target at a time; _update at most once per history.  Symmetry breaking: Listen always takes the lowest
   unregistered function (sound because Remove leaves no trace - which NoDangling/NoGhost check). *)
EXTENDS Integers, Sequences, FiniteSets, TLC, Json
CONSTANTS NF,          \* number of listener functions
          MaxDepth,
          Styles,      \* set of <<propagate, once, named, retval>> option combinations Listen may use
          InstCls,     \* classes that may be instantiated
          CPars,       \* possible parents of the late class C
          BadRm,       \* targets on which a Remove of a not-registered (target, fn) is attempted
          NShards, Shard,
          Shape,           \* "chain" or "diamond" (see cpar above)
          JoinedXoBroken   \* TRUE = the pinned tree: exec_once on a _JoinedListener raises AttributeError (see DoExecOnce)
VARIABLES st, last, prev, n   \* last = label and expected result of the step just taken, prev = the state it was taken from,
vars == <<st, last, prev, n>> \* n = steps taken (all three hidden by VIEW: they do not multiply states)
Fns == 1..NF
Classes == 1..4
Insts == 1..2
Owners == 0..2
Range(s) == {s[i] : i \in 1..Len(s)}
NoInst == [cls |-> 0, kind |-> "none", ls |-> <<>>, prop |-> {}, xo |-> FALSE, join |-> 0]
NoWr == [once |-> 0, named |-> FALSE, retval |-> FALSE]
InitSt == [shape |-> Shape, cpar |-> 0, clin |-> {}, cl |-> [c \in Classes |-> <<>>], inst |-> [k \in Insts |-> NoInst],
           wr |-> [f \in Fns |-> NoWr], k2c |-> {}, c2k |-> {}, log |-> <<>>, upd |-> FALSE]
R(s, out, calls) == [st |-> s, ret |-> [out |-> out, calls |-> calls]]
\* ---------------------------------------------------------------- class tree
Par(s, c) == CASE c = 1 -> 0 [] c = 2 -> 1 [] c = 3 -> 2 [] OTHER -> s.cpar      \* chain only
Exists(s, c) == c \in 1..3 \/ (c = 4 /\ s.cpar # 0)
RECURSIVE ChainAnc(_, _)
ChainAnc(s, c) == IF c = 0 THEN <<>> ELSE <<c>> \o ChainAnc(s, Par(s, c))
\* cls.__mro__ (self first); for the diamond the C3 linearisation of M(L, R) is M, L, R, Base
Anc(s, c) == IF Shape = "chain" THEN ChainAnc(s, c)
             ELSE CASE c = 1 -> <<1>> [] c = 2 -> <<2, 1>> [] c = 3 -> <<3, 1>>
                    [] OTHER -> IF s.cpar = 23 THEN <<4, 2, 3, 1>> ELSE <<4, 3, 2, 1>>
Subs(s, c) == {d \in Classes : Exists(s, d) /\ c \in Range(Anc(s, d))}      \* util.walk_subclasses(c)
\* the ORDER of util.walk_subclasses (a stack: the subclass created last is visited first).  Chain: parents before children,
\* nothing else matters.  Diamond: Base.__subclasses__() = [L, R] -> R is popped first, then R's subclass M, and only then L -
\* so during listen(Base) a not yet established M copies L's collection BEFORE L has received the new listener.
\* From L (or R) itself the walk is simply L, M.
WalkOrder(s, c) == SelectSeq(IF Shape = "chain" THEN <<1, 2, 3, 4>>
                             ELSE IF c = 1 THEN <<1, 3, 4, 2>> ELSE IF c = 4 THEN <<4>> ELSE <<c, 4>>,
                             LAMBDA d : d \in Subs(s, c))
\* a class whose ancestors form a chain: there "registration order" is defined; for M(L, R) the order between listeners that
\* came through different bases is whatever the MRO merge at establishment time gave (named deviation, notes/C28.md)
Linear(c) == Shape = "chain" \/ c # 4
RECURSIVE RemoveFirst(_, _)      \* deque.remove
RemoveFirst(q, x) == IF q = <<>> THEN <<>> ELSE IF Head(q) = x THEN Tail(q) ELSE <<Head(q)>> \o RemoveFirst(Tail(q), x)
\* ---------------------------------------------------------------- _ClsLevelDispatch
ExtendNew(acc, src) == acc \o SelectSeq(src, LAMBDA x : x \notin Range(acc))
RECURSIVE Pull(_, _, _)
Pull(s, ancs, acc) == IF ancs = <<>> THEN acc
                      ELSE Pull(s, Tail(ancs), IF Head(ancs) \in s.clin THEN ExtendNew(acc, s.cl[Head(ancs)]) ELSE acc)
UpdSub(s, c) == IF c \in s.clin THEN s        \* update_subclass, only ever reached for a class without a deque
                ELSE [s EXCEPT !.clin = @ \cup {c}, !.cl[c] = Pull(s, Tail(Anc(s, c)), <<>>)]
RECURSIVE InsCls(_, _, _, _, _)   \* _do_insert_or_append
InsCls(s, order, tgt, f, ins) ==
  IF order = <<>> THEN s
  ELSE LET c == Head(order)
           s1 == IF c # tgt /\ c \notin s.clin THEN UpdSub(s, c)
                 ELSE LET s0 == UpdSub(s, c)
                      IN [s0 EXCEPT !.cl[c] = IF ins THEN <<f>> \o @ ELSE Append(@, f)]
       IN InsCls(s1, Tail(order), tgt, f, ins)
Store(s, t, f, o) == IF <<t, f, o>> \in s.k2c THEN s       \* registry._stored_in_collection
                     ELSE [s EXCEPT !.k2c = @ \cup {<<t, f, o>>}, !.c2k = @ \cup {<<t, f, o>>}]
ListenCls(s, c, f, ins) == Store(InsCls(s, WalkOrder(s, c), c, f, ins), c, f, 0)
\* ---------------------------------------------------------------- instance level
ForModify(s, k) == IF s.inst[k].kind = "empty" THEN [s EXCEPT !.inst[k].kind = "coll"] ELSE s
ListenInst(s, k, f, ins, prop) ==
  LET s0 == ForModify(s, k)
  IN IF <<10 + k, f, k>> \in s0.k2c THEN s0
     ELSE LET s1 == Store(s0, 10 + k, f, k)
          IN [s1 EXCEPT !.inst[k].ls = IF ins THEN <<f>> \o @ ELSE Append(@, f),
                        !.inst[k].prop = IF prop THEN @ \cup {f} ELSE @]
OwnSeq(s, k) == s.cl[s.inst[k].cls] \o s.inst[k].ls          \* parent_listeners then listeners
IterSeq(s, k) == IF s.inst[k].join = 0 THEN OwnSeq(s, k) ELSE OwnSeq(s, k) \o OwnSeq(s, s.inst[k].join)
\* ---------------------------------------------------------------- abstract log
RegEntry(t, f, ins, prop, once, named, retval) ==
   [k |-> "reg", t |-> t, f |-> f, ins |-> ins, prop |-> prop, once |-> once, named |-> named, retval |-> retval,
    fired |-> FALSE, n |-> 0, fns |-> <<>>]
UpdEntry(dst, fns) ==
   [k |-> "upd", t |-> dst, f |-> 0, ins |-> FALSE, prop |-> FALSE, once |-> FALSE, named |-> FALSE, retval |-> FALSE,
    fired |-> FALSE, n |-> 0, fns |-> fns]
Regs(s) == {s.log[i] : i \in {j \in 1..Len(s.log) : s.log[j].k = "reg"}}
RegFns(s) == {e.f : e \in Regs(s)}
RegOf(s, f) == CHOOSE e \in Regs(s) : e.f = f
Contains(s) == {<<e.t, e.f>> : e \in Regs(s)}
RECURSIVE Fold(_, _, _)         \* inserted ones first (latest insert first), registration order otherwise
Fold(log, ts, acc) ==
  IF log = <<>> THEN acc
  ELSE LET e == Head(log) IN
       Fold(Tail(log), ts, IF e.t \notin ts THEN acc
                           ELSE IF e.k = "upd" THEN acc \o e.fns
                           ELSE IF e.ins THEN <<e.f>> \o acc ELSE Append(acc, e.f))
AbsCls(s, c) == Fold(SelectSeq(s.log, LAMBDA e : e.k = "reg"), Range(Anc(s, c)), <<>>)
AbsInst(s, k) == Fold(s.log, {10 + k}, <<>>)
AbsOwn(s, k) == AbsCls(s, s.inst[k].cls) \o AbsInst(s, k)
MarkCalled(s, f) ==
  LET i == CHOOSE j \in 1..Len(s.log) : s.log[j].k = "reg" /\ s.log[j].f = f
  IN [s EXCEPT !.wr[f].once = IF @ = 1 THEN 2 ELSE @,
               !.log[i].fired = s.log[i].once, !.log[i].n = IF @ < 2 THEN @ + 1 ELSE 2]
RECURSIVE DelFromLog(_, _, _)
DelFromLog(log, t, f) ==
  IF log = <<>> THEN <<>>
  ELSE LET e == Head(log) IN
       IF e.k = "reg" /\ e.t = t /\ e.f = f THEN DelFromLog(Tail(log), t, f)
       ELSE <<IF e.k = "upd" THEN [e EXCEPT !.fns = RemoveFirst(@, f)] ELSE e>> \o DelFromLog(Tail(log), t, f)
\* ---------------------------------------------------------------- calling the listeners
RECURSIVE Fire(_, _, _, _, _, _)
\* q = what the collection iterates, x = current first argument, thr = caller honours return values
\* (`for fn in dispatch.ev: r = fn(x, y)`), boom = the next listener whose body really runs raises
Fire(s, q, x, thr, boom, acc) ==
  IF q = <<>> THEN [st |-> s, calls |-> acc, raised |-> FALSE]
  ELSE LET f == Head(q)  w == s.wr[f] IN
       IF w.once = 2 THEN Fire(s, Tail(q), x, thr, boom, acc)          \* only_once: spent wrapper is a no-op
       ELSE LET s1 == MarkCalled(s, f)
                c == [f |-> f, x |-> x, kw |-> w.named]
            IN IF boom THEN [st |-> s1, calls |-> Append(acc, c), raised |-> TRUE]
               ELSE Fire(s1, Tail(q), IF thr /\ w.retval THEN x + 1 ELSE x, thr, FALSE, Append(acc, c))
\* ---------------------------------------------------------------- operations
DoListen(s, t, f, ins, sty) ==
  LET s1 == IF t < 10 THEN ListenCls(s, t, f, ins) ELSE ListenInst(s, t - 10, f, ins, sty[1])
  IN R([s1 EXCEPT !.wr[f] = [once |-> IF sty[2] THEN 1 ELSE 0, named |-> sty[3], retval |-> sty[4]],
                  !.log = Append(@, RegEntry(t, f, ins, sty[1] /\ t > 10, sty[2], sty[3], sty[4]))], "ok", <<>>)
DoRemove(s, t, f) ==
  LET owners == {o \in Owners : <<t, f, o>> \in s.k2c} IN
  IF owners = {} THEN R(s, "InvalidRequestError", <<>>)
  ELSE LET subs == IF t < 10 THEN Subs(s, t) ELSE {}
           bad == (0 \in owners /\ \E c \in subs : c \in s.clin /\ f \notin Range(s.cl[c]))
                  \/ (\E k \in owners \ {0} : f \notin Range(s.inst[k].ls))
           s1 == [s EXCEPT !.k2c = {e \in @ : ~(e[1] = t /\ e[2] = f)},
                           !.c2k = {e \in @ : ~(e[2] = f /\ e[3] \in owners)},
                           !.cl = [c \in Classes |-> IF 0 \in owners /\ c \in subs /\ c \in s.clin
                                                     THEN RemoveFirst(@[c], f) ELSE @[c]],
                           !.inst = [k \in Insts |-> IF k \in owners
                                                     THEN [@[k] EXCEPT !.ls = RemoveFirst(@, f), !.prop = @ \ {f}]
                                                     ELSE @[k]],
                           !.wr[f] = NoWr,
                           !.log = DelFromLog(@, t, f)]
       IN IF bad THEN R(s, "ValueError", <<>>) ELSE R(s1, "ok", <<>>)
DoCreateSub(s, p) == R([s EXCEPT !.cpar = p], "ok", <<>>)
DoNewInst(s, k, c, j) ==        \* cls(); touching .dispatch builds the per-class _EmptyListener -> update_subclass
  R([UpdSub(s, c) EXCEPT !.inst[k] = [NoInst EXCEPT !.cls = c, !.kind = "empty", !.join = j]], "ok", <<>>)
DoDispatch(s, k, mode) ==
  LET r == Fire(s, IterSeq(s, k), 0, mode = "iter", FALSE, <<>>) IN R(r.st, "ok", r.calls)
DoExecOnce(s, k, mode, boom) ==  \* dispatch.ev.for_modify(dispatch).exec_once[_unless_exception](x, y)
  LET s0 == ForModify(s, k) IN
  \* NAMED DEVIATION (defect, known finding C28-joined-exec-once): _JoinedListener.__init__ never sets _is_asyncio, so
  \* _get_exec_once_mutex raises AttributeError and nothing is called.  The spec follows the code here; ExecOnceRuns
  \* states the intended behaviour and is checked in a separate TLC run.
  IF JoinedXoBroken /\ s0.inst[k].join # 0 THEN R(s0, "AttributeError", <<>>)
  ELSE IF s0.inst[k].xo THEN R(s0, "ok", <<>>)
  ELSE LET r == Fire(s0, IterSeq(s0, k), 0, FALSE, boom, <<>>)
       IN R([r.st EXCEPT !.inst[k].xo = (~r.raised) \/ mode = "once"], IF r.raised THEN "raise" ELSE "ok", r.calls)
DoUpdate(s, dst, src, onlyprop) ==      \* dst.dispatch._update(src.dispatch, only_propagate=onlyprop)
  IF s.inst[src].kind = "empty" THEN R([s EXCEPT !.upd = TRUE], "ok", <<>>)
  ELSE LET s0 == ForModify(s, dst)
           existing == Range(s0.inst[dst].ls)
           prop2 == s0.inst[dst].prop \cup s0.inst[src].prop
           other == SelectSeq(s0.inst[src].ls, LAMBDA l : (l \notin existing /\ ~onlyprop) \/ l \in prop2)
           assoc == s0.inst[src].prop \cup Range(other)
           new == {e2 \in {<<e[1], e[2], dst>> : e \in {e \in s0.c2k : e[3] = src /\ e[2] \in assoc}} :
                       \E o \in Owners : <<e2[1], e2[2], o>> \in s0.k2c}
           \* abstract: what the log says src offers and dst lacks
           aoff == SelectSeq(AbsInst(s0, src), LAMBDA l : (l \notin Range(AbsInst(s0, dst)) /\ ~onlyprop) \/ RegOf(s0, l).prop)
       IN R([s0 EXCEPT !.inst[dst].ls = @ \o other, !.inst[dst].prop = prop2,
                       !.k2c = @ \cup new, !.c2k = @ \cup new,
                       !.log = Append(@, UpdEntry(10 + dst, aoff)), !.upd = TRUE], "ok", <<>>)
\* ---------------------------------------------------------------- actions
\* option combinations <<propagate, once, named, retval>> (cfg: CONSTANT Styles <- StylesQuick / StylesFull)
StylesQuick == {<<FALSE, FALSE, FALSE, FALSE>>, <<TRUE, FALSE, TRUE, FALSE>>, <<FALSE, TRUE, FALSE, TRUE>>, <<TRUE, TRUE, TRUE, TRUE>>}
StylesFull == BOOLEAN \X BOOLEAN \X BOOLEAN \X BOOLEAN
StylesMin == {<<FALSE, FALSE, FALSE, FALSE>>, <<TRUE, TRUE, TRUE, TRUE>>}
NoOpt == <<FALSE, FALSE, FALSE, FALSE>>
Step(a, t, f, ins, sty, m, res) ==
  /\ st' = res.st
  /\ prev' = st
  /\ n' = n + 1
  /\ last' = [a |-> a, t |-> t, f |-> f, ins |-> ins, prop |-> sty[1], once |-> sty[2], named |-> sty[3],
              retval |-> sty[4], m |-> m, ret |-> res.ret]
TargetExists(s, t) == IF t < 10 THEN Exists(s, t) ELSE s.inst[t - 10].cls # 0
Targets == Classes \cup {10 + k : k \in Insts}
FreeFns == Fns \ RegFns(st)
Listen == /\ FreeFns # {}
          /\ LET f == CHOOSE x \in FreeFns : \A y \in FreeFns : x <= y IN
             \E t \in Targets, ins \in BOOLEAN, sty \in Styles :
                /\ TargetExists(st, t)
                /\ (t < 10 => ~sty[1])          \* propagate is ignored at class level: not varied there
                /\ Step("Listen", t, f, ins, sty, "", DoListen(st, t, f, ins, sty))
Remove == \E e \in Contains(st) : Step("Remove", e[1], e[2], FALSE, NoOpt, "", DoRemove(st, e[1], e[2]))
RemoveBad == \E t \in BadRm, f \in Fns :
                /\ TargetExists(st, t) /\ <<t, f>> \notin Contains(st)
                /\ Step("Remove", t, f, FALSE, NoOpt, "", DoRemove(st, t, f))
CreateSubclass == st.cpar = 0 /\ \E p \in CPars : Step("CreateSubclass", p, 0, FALSE, NoOpt, "", DoCreateSub(st, p))
NewInstance == \E k \in Insts, c \in InstCls, j \in 0..1 :
                 /\ st.inst[k].cls = 0 /\ (k = 1 \/ st.inst[1].cls # 0) /\ Exists(st, c)
                 /\ (j = 1 => k = 2)
                 /\ Step("NewInstance", 10 + k, c, FALSE, NoOpt, IF j = 1 THEN "join" ELSE "", DoNewInst(st, k, c, j))
Dispatch == \E k \in Insts, m \in {"call", "iter"} :
                 st.inst[k].cls # 0 /\ Step("Dispatch", 10 + k, 0, FALSE, NoOpt, m, DoDispatch(st, k, m))
ExecOnce == \E k \in Insts, m \in {"once", "unless"}, boom \in BOOLEAN :
                 st.inst[k].cls # 0 /\ Step("ExecOnce", 10 + k, IF boom THEN 1 ELSE 0, FALSE, NoOpt, m, DoExecOnce(st, k, m, boom))
Update == \E dst \in Insts, src \in Insts, op \in BOOLEAN :
                 /\ dst # src /\ ~st.upd /\ st.inst[dst].cls # 0 /\ st.inst[src].cls # 0
                 /\ st.inst[dst].join = 0 /\ st.inst[src].join = 0
                 /\ Step("Update", 10 + dst, src, op, NoOpt, "", DoUpdate(st, dst, src, op))
Init == st = InitSt /\ last = [a |-> "init"] /\ prev = InitSt /\ n = 0
Next == Listen \/ Remove \/ RemoveBad \/ CreateSubclass \/ NewInstance \/ Dispatch \/ ExecOnce \/ Update
Spec == Init /\ [][Next]_vars
\* For the single-worker edge dump: breadth-first search with VIEW keeps the first (= shortest) arrival at a state, so n is its
\* BFS depth and this guard explores exactly what CONSTRAINT Depth does, without computing the successors of the frontier
\* only to throw them away (TLCGet("level") inside an action is far slower).
NextDump == n < MaxDepth - 1 /\ Next
View == st
Depth == TLCGet("level") <= MaxDepth
\* what the binding compares after every step in addition to the mechanism state itself
LiveInsts(s) == {k \in Insts : s.inst[k].cls # 0}
Drain(s) == LET r1 == IF 1 \in LiveInsts(s) THEN DoDispatch(s, 1, "iter") ELSE R(s, "none", <<>>)
                r2 == IF 2 \in LiveInsts(s) THEN DoDispatch(r1.st, 2, "iter") ELSE R(s, "none", <<>>)
            IN <<r1.ret.calls, r2.ret.calls>>
Obs(s) == [contains |-> Contains(s),
           iter |-> [k \in Insts |-> IF k \in LiveInsts(s) THEN IterSeq(s, k) ELSE <<>>],
           drain |-> Drain(s)]
Emit == PrintT(ToJson([from |-> st, act |-> last', to |-> st', obs |-> Obs(st')]))
\* the edge dump is cut into NShards independent TLC runs by the FIRST step of the walk (states reached by several first
\* steps are dumped by several shards; every shard is a complete graph of the walks that begin with its first steps)
B2N(b) == IF b THEN 1 ELSE 0
ShardOK == st = InitSt => ((last'.t * 4 + last'.f + 2 * B2N(last'.ins) + B2N(last'.once)) % NShards) = Shard
EmitShard == ShardOK /\ Emit
InitEmit == Init /\ PrintT(ToJson([init |-> st]))
\* simulation mode (deep sampled walks): an INVARIANT is evaluated on the states of the behaviour being generated, in order
\* (TLC evaluates it on every candidate successor of the action it picked; prev tells which candidate was taken)
SimEmit == PrintT(ToJson([lvl |-> TLCGet("level"), from |-> prev, act |-> last, to |-> st, obs |-> Obs(st)]))
\* ================================================================ properties (one per clause of C28)
IsSet(q) == \A i, j \in 1..Len(q) : i # j => q[i] # q[j]
UpdFns(s, k) == UNION {Range(s.log[i].fns) : i \in {j \in 1..Len(s.log) : s.log[j].k = "upd" /\ s.log[j].t = 10 + k}}
RegisteredFor(s, k) == {e.f : e \in {e \in Regs(s) : e.t = 10 + k \/ e.t \in Range(Anc(s, s.inst[k].cls))}} \cup UpdFns(s, k)
\* dispatch calls exactly the listeners registered for the target and its ancestors (incl. a later-created class),
\* each once (for a joined target: on each side of the join)
ExactlyRegisteredEachOnce ==
   \A k \in LiveInsts(st) : Range(OwnSeq(st, k)) = RegisteredFor(st, k) /\ IsSet(OwnSeq(st, k))
\* class-level listeners run before instance-level ones
ClassBeforeInstance ==
   \A k \in LiveInsts(st) : LET q == OwnSeq(st, k) IN
      \A i, j \in 1..Len(q) : (i < j /\ q[i] \in RegFns(st) /\ q[j] \in RegFns(st)) => ~(RegOf(st, q[i]).t > 10 /\ RegOf(st, q[j]).t < 10)
\* insert=True ones first, registration order otherwise - for every class that has a collection and every instance
InsertedFirstThenRegistrationOrder ==
   /\ \A c \in st.clin : Linear(c) => st.cl[c] = AbsCls(st, c)
   /\ \A k \in LiveInsts(st) : st.inst[k].ls = AbsInst(st, k) /\ (Linear(st.inst[k].cls) => OwnSeq(st, k) = AbsOwn(st, k))
\* every class that has a collection holds exactly the listeners registered on it or on ANY class of its MRO, each once
\* (this is the clause that multiple inheritance stresses: M(L, R) established late must collect from L, R and Base)
ClassHoldsAllAncestors ==
   \A c \in st.clin : Range(st.cl[c]) = {e.f : e \in {e \in Regs(st) : e.t \in Range(Anc(st, c))}} /\ IsSet(st.cl[c])
\* once=True listeners: body runs at most once per registration
OnceAtMostOnce == \A e \in Regs(st) : e.once => e.n <= 1
OnceWrapperAgrees == \A e \in Regs(st) : (e.once <=> st.wr[e.f].once > 0) /\ (e.fired <=> st.wr[e.f].once = 2)
\* a dispatch never calls a function that is not registered (in particular one that was removed) ...
CallsOnlyRegistered == [][\A i \in 1..Len(last'.ret.calls) : last'.ret.calls[i].f \in RegFns(st)]_vars
\* ... and no collection still holds one
NoGhostListeners == /\ \A c \in Classes : Range(st.cl[c]) \subseteq RegFns(st)
                    /\ \A k \in Insts : Range(st.inst[k].ls) \subseteq RegFns(st) /\ st.inst[k].prop \subseteq Range(st.inst[k].ls)
\* the registry holds exactly the live registrations, both directions agree, and every owner really holds the function
NoDangling == /\ {<<e[1], e[2]>> : e \in st.k2c} = Contains(st)
              /\ st.c2k = st.k2c
              /\ \A e \in st.k2c : IF e[3] = 0 THEN e[1] < 10 /\ \A c \in Subs(st, e[1]) \cap st.clin : e[2] \in Range(st.cl[c])
                                   ELSE e[2] \in Range(st.inst[e[3]].ls)
\* remove() succeeds exactly for registered (target, fn) and un-registers it
RemoveWorks == [][last'.a = "Remove" =>
                    IF <<last'.t, last'.f>> \in Contains(st)
                    THEN last'.ret.out = "ok" /\ last'.f \notin RegFns(st') /\ st'.wr[last'.f] = NoWr
                    ELSE last'.ret.out = "InvalidRequestError" /\ st' = st]_vars
\* dispatch returns the abstract sequence minus spent once-listeners, with the first argument threaded through retval listeners
RECURSIVE AbsCalls(_, _, _, _, _)
AbsCalls(s, q, x, thr, spent) ==
   IF q = <<>> THEN <<>>
   ELSE LET e == RegOf(s, Head(q)) IN
        IF e.once /\ (e.fired \/ e.f \in spent) THEN AbsCalls(s, Tail(q), x, thr, spent)
        ELSE <<[f |-> e.f, x |-> x, kw |-> e.named]>>
             \o AbsCalls(s, Tail(q), IF thr /\ e.retval THEN x + 1 ELSE x, thr, IF e.once THEN spent \cup {e.f} ELSE spent)
AbsIter(s, k) == IF s.inst[k].join = 0 THEN AbsOwn(s, k) ELSE AbsOwn(s, k) \o AbsOwn(s, s.inst[k].join)
InvolvedLinear(s, k) == Linear(s.inst[k].cls) /\ (s.inst[k].join # 0 => Linear(s.inst[s.inst[k].join].cls))
DispatchIsAbstract == [][last'.a = "Dispatch" =>
                           LET k == last'.t - 10
                               abs == AbsCalls(st, AbsIter(st, k), 0, last'.m = "iter", {})
                           IN IF InvolvedLinear(st, k) THEN last'.ret.calls = abs
                              ELSE \* order across the two bases is not defined: same listeners, same multiplicity
                                   /\ Len(last'.ret.calls) = Len(abs)
                                   /\ {last'.ret.calls[i].f : i \in 1..Len(abs)} = {abs[i].f : i \in 1..Len(abs)}]_vars
\* exec_once: nothing runs after a completed first run; a raising run is retried only by the _unless_exception flavour
ExecOnceOnce == [][(last'.a = "ExecOnce" /\ st.inst[last'.t - 10].xo) => last'.ret.calls = <<>>]_vars
ExecOnceRuns == [][last'.a = "ExecOnce" => last'.ret.out \in {"ok", "raise"}]_vars
ExecOnceFlag == [][last'.a = "ExecOnce" /\ ~st.inst[last'.t - 10].xo /\ last'.ret.out \in {"ok", "raise"} =>
                      st'.inst[last'.t - 10].xo = (last'.ret.out = "ok" \/ last'.m = "once")]_vars
=============================================================================
