---------------------------- MODULE ConnTxn ----------------------------
(* Mechanism layer of engine/base.py Connection transactions, transcribed from the validated mirror
   (DESIGN Appendix E).  One record `st` is the whole state; each operation is a pure function
   st -> [st, ret]; the database part (dbtx, dbsp, committed) is the reference nested-transaction model. *)
EXTENDS Integers, Sequences, FiniteSets, TLC, Json
CONSTANTS MaxH, MaxRows, MaxDepth,
          Ctx      \* TRUE: context-manager actions (with handle: ...) are part of the graph
VARIABLES st, last
vars == <<st, last>>
NoH == 0
\* outer / subj / entered: TransactionalContext state of the handle (_outer_trans_ctx, _trans_subject set, __enter__ called)
HRec(kind, sp, prev) == [kind |-> kind, active |-> TRUE, prev |-> prev, sp |-> sp, outer |-> 0, subj |-> FALSE, entered |-> FALSE]
InitSt == [h |-> <<>>, root |-> NoH, nested |-> NoH, dbtx |-> << {} >>, dbsp |-> <<>>, committed |-> {},
           spseq |-> 0, closed |-> FALSE, nrow |-> 0,
           tcm |-> 0,   \* Connection._trans_context_manager (handle id)
           \* ghost: abstract reference model over the USER's handles (RefNested): rowh[k] = handle that was current when
           \* row k was written (0 = none), dead = rows undone by a savepoint rollback, pend = rows of the open transaction,
           \* refc = rows the reference says are committed
           rowh |-> <<>>, dead |-> {}, pend |-> {}, refc |-> {},
           \* ghost: TRUE once a savepoint handle that is not the current one was committed / rolled back while active
           \* (out-of-order misuse; the real call emits a warning) - named deviation, DESIGN 6 (C23)
           ooo |-> FALSE]
R(s, r) == [st |-> s, ret |-> r]
\* ---------- database (reference) ----------
DbCommit(s)   == [s EXCEPT !.committed = @ \cup UNION {s.dbtx[i] : i \in 1..Len(s.dbtx)}, !.dbtx = << {} >>, !.dbsp = <<>>,
                             !.refc = @ \cup (s.pend \ s.dead), !.pend = {}, !.dead = {}, !.ooo = FALSE]
DbRollback(s) == [s EXCEPT !.dbtx = << {} >>, !.dbsp = <<>>, !.pend = {}, !.dead = {}, !.ooo = FALSE]
DbSavepoint(s, n) == [s EXCEPT !.dbsp = Append(@, n), !.dbtx = Append(@, {})]
SpIndex(s, n) == IF \E i \in 1..Len(s.dbsp) : s.dbsp[i] = n THEN CHOOSE i \in 1..Len(s.dbsp) : s.dbsp[i] = n ELSE 0
DbRollbackTo(s, i) == [s EXCEPT !.dbtx = Append(SubSeq(@, 1, i), {}), !.dbsp = SubSeq(@, 1, i)]
DbRelease(s, i) == LET merged == UNION {s.dbtx[j] : j \in (i+1)..Len(s.dbtx)}
                   IN [s EXCEPT !.dbtx = [SubSeq(@, 1, i) EXCEPT ![i] = @ \cup merged], !.dbsp = SubSeq(@, 1, i - 1)]
\* ---------- mechanism ----------
Active(s, x) == x # NoH /\ s.h[x].active
InTx(s) == Active(s, s.root)
InNested(s) == Active(s, s.nested)
Guard(s) == (s.root # NoH /\ ~s.h[s.root].active) \/ (s.nested # NoH /\ ~s.h[s.nested].active)
SetInactive(s, x) == [s EXCEPT !.h[x].active = FALSE]
RECURSIVE Cancel(_, _)
Cancel(s, x) == IF x = NoH THEN s
                ELSE LET s1 == SetInactive(s, x)
                         s2 == IF s1.nested = x THEN [s1 EXCEPT !.nested = s1.h[x].prev] ELSE s1
                     IN Cancel(s2, s.h[x].prev)
NewRoot(s) == LET id == Len(s.h) + 1 IN [s EXCEPT !.h = Append(@, HRec("root", 0, NoH)), !.root = id]
\* TransactionalContext._trans_ctx_check: inside a `with` block whose transaction has ended, further use is refused
CtxBad(s) == s.tcm # NoH /\ ~s.h[s.tcm].active
DoBegin(s) == IF s.closed THEN R(s, "ResourceClosedError")
              ELSE IF s.root = NoH THEN (IF CtxBad(s) THEN R(s, "InvalidRequestError") ELSE R(NewRoot(s), "ok"))
              ELSE R(s, "InvalidRequestError")
Auto(s) == IF s.root = NoH THEN NewRoot(s) ELSE s
DoNested(s) == IF s.closed THEN R(s, "ResourceClosedError")
               ELSE IF s.root = NoH /\ CtxBad(s) THEN R(s, "InvalidRequestError")      \* autobegin -> RootTransaction.__init__ check
               ELSE LET s0 == Auto(s) IN
                    IF CtxBad(s0) THEN R(s0, "InvalidRequestError")                     \* NestedTransaction.__init__ check
                    ELSE IF s.root # NoH /\ ~s.h[s.root].active THEN R(s, "PendingRollbackError")
                    ELSE IF Guard(s0) THEN R(s0, "PendingRollbackError")
                    ELSE LET n == s0.spseq + 1 id == Len(s0.h) + 1
                             s1 == DbSavepoint([s0 EXCEPT !.spseq = n], n)
                         IN R([s1 EXCEPT !.h = Append(@, HRec("sp", n, s0.nested)), !.nested = id], "ok")
DoExec(s) == IF s.closed THEN R(s, "ResourceClosedError")
             ELSE IF Guard(s) THEN R(s, "PendingRollbackError")                          \* _execute_context: guard, then ctx check,
             ELSE IF CtxBad(s) THEN R(s, "InvalidRequestError")                          \* then autobegin
             ELSE LET s0 == Auto(s) IN
                  LET k == s0.nrow + 1 IN
                       R([s0 EXCEPT !.nrow = k, !.dbtx[Len(s0.dbtx)] = @ \cup {k},
                                    !.rowh = Append(@, s0.nested), !.pend = @ \cup {k}], "ok")
RootCloseImpl(s, x, tryDeact) ==
   LET s1 == IF s.h[x].active THEN DbRollback(s) ELSE s
       s2 == Cancel(s1, s1.nested)
       warn == ~s.h[x].active /\ tryDeact /\ s.root # x
       s3 == IF s.h[x].active THEN SetInactive(s2, x) ELSE s2
       s4 == IF s3.root = x THEN [s3 EXCEPT !.root = NoH] ELSE s3
   IN R(s4, IF warn THEN "ok+warn" ELSE "ok")
RootCommit(s, x) ==
   IF s.h[x].active THEN LET s1 == Cancel(DbCommit(s), s.nested) IN R([SetInactive(s1, x) EXCEPT !.root = NoH], "ok")
   ELSE IF s.root = x THEN R(s, "PendingRollbackError") ELSE R(s, "InvalidRequestError")
Unlink(s, x) == IF s.nested = x THEN [s EXCEPT !.nested = s.h[x].prev] ELSE s
RECURSIVE InChain(_, _, _)
InChain(s, y, x) == IF y = NoH THEN FALSE ELSE IF y = x THEN TRUE ELSE InChain(s, s.h[y].prev, x)
Kill(s, x) == [s EXCEPT !.dead = @ \cup {k \in s.pend : InChain(s, s.rowh[k], x)}]
Mark(s, x) == IF s.nested # x /\ s.h[x].active THEN [s EXCEPT !.ooo = TRUE] ELSE s
SpCloseImpl(s0, x, warnFlag) ==
   LET s == Mark(s0, x) IN
   IF s.h[x].active /\ InTx(s) THEN
      LET i == SpIndex(s, s.h[x].sp)
          \* ROLLBACK TO / RELEASE are statements: they pass the same guard and with-block check as execute()
          err == IF Guard(s) THEN "PendingRollbackError" ELSE IF CtxBad(s) THEN "InvalidRequestError"
                 ELSE IF i = 0 THEN "OperationalError" ELSE "none"
      IN IF err # "none" THEN LET s1 == Unlink(SetInactive(s, x), x)
                              IN R(s1, IF s.nested # x /\ warnFlag THEN err \o "+warn" ELSE err)
         ELSE LET s1 == Unlink(SetInactive(Kill(DbRollbackTo(s, i), x), x), x)
              IN R(s1, IF s.nested # x /\ warnFlag THEN "ok+warn" ELSE "ok")
   ELSE LET s1 == Unlink(SetInactive(s, x), x) IN R(s1, IF s.nested # x /\ warnFlag THEN "ok+warn" ELSE "ok")
SpCommit(s0, x) ==
   LET s == Mark(s0, x) IN
   IF s.h[x].active THEN
      IF Guard(s) THEN R(SetInactive(s, x), "PendingRollbackError")
      ELSE IF CtxBad(s) THEN R(SetInactive(s, x), "InvalidRequestError")
      ELSE LET i == SpIndex(s, s.h[x].sp) IN
           IF i = 0 THEN R(SetInactive(s, x), "OperationalError")
           ELSE LET s1 == SetInactive(DbRelease(s, i), x) IN
                IF s.nested = x THEN R([s1 EXCEPT !.nested = s.h[x].prev], "ok") ELSE R(s1, "ok+warn")
   ELSE IF s.nested = x THEN R(s, "PendingRollbackError") ELSE R(s, "InvalidRequestError")
HOp(s, x, op) == IF s.h[x].kind = "root"
                 THEN CASE op = "commit" -> RootCommit(s, x) [] op = "rollback" -> RootCloseImpl(s, x, TRUE) [] OTHER -> RootCloseImpl(s, x, FALSE)
                 ELSE CASE op = "commit" -> SpCommit(s, x) [] op = "rollback" -> SpCloseImpl(s, x, TRUE) [] OTHER -> SpCloseImpl(s, x, FALSE)
DoConnCommit(s) == IF s.root # NoH THEN HOp(s, s.root, "commit") ELSE R(s, "ok")
DoConnRollback(s) == IF s.root # NoH THEN HOp(s, s.root, "rollback") ELSE R(s, "ok")
DoClose(s) == LET s1 == IF s.root # NoH THEN HOp(s, s.root, "close").st ELSE DbRollback(s) IN R([s1 EXCEPT !.closed = TRUE], "ok")
\* ---------- context managers (engine/util.py TransactionalContext) ----------
Warned == {"ok+warn", "PendingRollbackError+warn", "OperationalError+warn", "InvalidRequestError+warn", "raised+warn"}
IsOk(r) == r \in {"ok", "ok+warn"}
Base(r) == CASE r = "ok+warn" -> "ok" [] r = "PendingRollbackError+warn" -> "PendingRollbackError"
             [] r = "OperationalError+warn" -> "OperationalError" [] r = "InvalidRequestError+warn" -> "InvalidRequestError" [] OTHER -> r
W(r, warn) == IF warn THEN Base(r) \o "+warn" ELSE Base(r)
DoEnter(s, x) == R([s EXCEPT !.h[x].outer = s.tcm, !.h[x].subj = TRUE, !.h[x].entered = TRUE, !.tcm = x], "ok")
Detached(s, x) == IF s.h[x].kind = "root" THEN s.root # x ELSE s.nested # x
DoExit(s, x, exc) ==
   LET oob == ~s.h[x].subj \/ s.tcm # x
       Fin(z) == LET z1 == IF ~oob THEN [z EXCEPT !.tcm = s.h[x].outer] ELSE z
                 IN [z1 EXCEPT !.h[x].subj = FALSE, !.h[x].outer = NoH]
   IN IF ~exc /\ s.h[x].active
      THEN LET c == HOp(s, x, "commit") IN
           IF IsOk(c.ret) THEN R(Fin(c.st), c.ret)
           ELSE LET rb == HOp(c.st, x, "rollback")           \* except: safe_reraise(rollback()) - the commit error propagates
                IN R(Fin(rb.st), W(c.ret, c.ret \in Warned \/ rb.ret \in Warned))
      ELSE LET r == IF ~s.h[x].active
                    THEN (IF Detached(s, x) THEN HOp(s, x, "close") ELSE R(s, "ok"))
                    ELSE HOp(s, x, "rollback")
           IN R(Fin(r.st), IF ~IsOk(r.ret) THEN r.ret ELSE IF exc THEN W("raised", r.ret \in Warned) ELSE r.ret)
\* ---------- actions ----------
Step(name, arg, res) == st' = res.st /\ last' = [a |-> name, arg |-> arg, ret |-> res.ret]
Open == ~st.closed
Begin == Open /\ Step("Begin", 0, DoBegin(st))
BeginNested == Open /\ Len(st.h) < MaxH /\ Step("BeginNested", 0, DoNested(st))
Exec == Open /\ st.nrow < MaxRows /\ Len(st.h) < MaxH /\ Step("Exec", 0, DoExec(st))
ConnCommit == Open /\ Step("ConnCommit", 0, DoConnCommit(st))
ConnRollback == Open /\ Step("ConnRollback", 0, DoConnRollback(st))
HandleOp == Open /\ \E x \in 1..Len(st.h), op \in {"commit", "rollback", "close"} : Step("H_" \o op, x, HOp(st, x, op))
Close == Open /\ Step("Close", 0, DoClose(st))
Init == st = InitSt /\ last = [a |-> "init", arg |-> 0, ret |-> "ok"]
WithEnter == Ctx /\ Open /\ \E x \in 1..Len(st.h) : ~st.h[x].entered /\ Step("WithEnter", x, DoEnter(st, x))
WithExit == Ctx /\ Open /\ \E x \in 1..Len(st.h) : st.h[x].subj /\
              \/ Step("WithExit", x, DoExit(st, x, FALSE))
              \/ Step("WithExitExc", x, DoExit(st, x, TRUE))
Next == (Len(st.h) < MaxH /\ Begin) \/ BeginNested \/ Exec \/ ConnCommit \/ ConnRollback \/ HandleOp \/ Close \/ WithEnter \/ WithExit
Spec == Init /\ [][Next]_vars
View == st
Obs(s) == [intx |-> InTx(s), innested |-> InNested(s), closed |-> s.closed, committed |-> s.committed]
Emit == PrintT(ToJson([from |-> st, act |-> last', to |-> st', obs |-> Obs(st')]))
InitEmit == Init /\ PrintT(ToJson([init |-> st]))
Depth == TLCGet("level") <= MaxDepth
\* ---------- properties ----------
\* rows become visible to others only through a root commit, and a commit publishes exactly the rows of the surviving frames
CommittedOnlyByCommit == [][st'.committed # st.committed => last'.a \in {"ConnCommit", "H_commit", "WithExit"} /\ last'.ret = "ok"]_vars
NothingLost == st.committed \subseteq 1..st.nrow
\* an operation that raises changes neither the database nor (except for deactivating the handle it was called on) the flags
ErrorsDontAct == [][ (last'.ret \notin {"ok", "ok+warn", "raised", "raised+warn"} /\ last'.a \notin {"WithExit", "WithExitExc"}) => (st'.committed = st.committed /\ st'.dbtx = st.dbtx) ]_vars
FlagsConsistent == (InNested(st) => InTx(st)) /\ (st.closed => ~InTx(st))
\* the db savepoint stack never holds fewer savepoints than there are *current-chain* active nested handles, unless misuse occurred
PointerSane == st.nested # NoH => st.h[st.nested].kind = "sp"
\* C23, abstract layer: what other connections see equals the reference model over the user's own handles
\* (a savepoint rollback undoes exactly the rows written since that savepoint began; root rollback/close undoes all)
RefAgree == st.committed = st.refc
\* ... and the uncommitted view inside the transaction agrees too (rows alive in the reference = rows in the db frames)
RefAgreeLive == (UNION {st.dbtx[i] : i \in 1..Len(st.dbtx)}) = st.pend \ st.dead
\* in_transaction()/in_nested_transaction() agree with the reference: a live nested handle implies a live db savepoint
NestedHasSavepoint == InNested(st) => SpIndex(st, st.h[st.nested].sp) # 0
InOrder(P) == ~st.ooo => P
RefAgree_InOrder == InOrder(RefAgree)
RefAgreeLive_InOrder == InOrder(RefAgreeLive)
NestedHasSavepoint_InOrder == InOrder(NestedHasSavepoint)
\* C23 "use after the transaction of an enclosing with-block ended": statements and new transactions are refused, nothing acts
CtxEndedRefuses == [][ (CtxBad(st) /\ ~Guard(st) /\ last'.a \in {"Exec", "Begin", "BeginNested"})
                         => (last'.ret = "InvalidRequestError" /\ st'.dbtx = st.dbtx /\ st'.committed = st.committed) ]_vars
\* leaving a with-block normally commits (publishes) exactly like commit(); leaving it with an exception publishes nothing
CtxExitExcNeverPublishes == [][ last'.a = "WithExitExc" => st'.committed = st.committed ]_vars
\* an operation on an ended transaction raises (or is a no-op close/rollback) instead of acting on the database
EndedDontAct == [][ \A x \in 1..Len(st.h) :
                      (last'.a \in {"H_commit", "H_rollback", "H_close"} /\ last'.arg = x /\ ~st.h[x].active)
                         => (st'.committed = st.committed /\ st'.dbtx = st.dbtx /\ st'.dbsp = st.dbsp
                             /\ (last'.a = "H_commit" => last'.ret \notin {"ok", "ok+warn"})) ]_vars
=============================================================================
