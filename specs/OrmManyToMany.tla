---------------------------- MODULE OrmManyToMany ----------------------------
(* C37 on a bidirectional MANY-TO-MANY pair L.rs <-> R.ls (secondary table, back_populates, list collections), in memory.
   coll[x] is the list held by x (x in Ls: its Rs; x in Rs: its Ls).  An operation on one list fires the backref on the other
   object's list: append / insert -> append at the END of the partner's list; remove / pop -> remove from the partner's list;
   bulk replace -> appends for the new members (in order), removes for the members that left.  Duplicate-free lists. *)
EXTENDS Integers, Sequences, FiniteSets, TLC, Json
CONSTANTS Ls, Rs, MaxDepth
VARIABLES st, last
vars == <<st, last>>
Objs == Ls \cup Rs
Other(x) == IF x \in Ls THEN Rs ELSE Ls
Range(q) == {q[i] : i \in 1..Len(q)}
RemoveOne(q, x) == IF x \notin Range(q) THEN q
                   ELSE LET i == CHOOSE i \in 1..Len(q) : q[i] = x /\ \A j \in 1..(i-1) : q[j] # x
                        IN SubSeq(q, 1, i - 1) \o SubSeq(q, i + 1, Len(q))
InitSt == [coll |-> [x \in Objs |-> <<>>]]
Link(s, x, y, front) == [s EXCEPT !.coll[x] = IF front THEN <<y>> \o @ ELSE Append(@, y),
                                  !.coll[y] = IF x \in Range(@) THEN @ ELSE Append(@, x)]
Unlink(s, x, y) == [s EXCEPT !.coll[x] = RemoveOne(@, y), !.coll[y] = RemoveOne(@, x)]
RECURSIVE AddAll(_, _, _)
AddAll(s, x, q) == IF q = <<>> THEN s ELSE AddAll([s EXCEPT !.coll[Head(q)] = IF x \in Range(@) THEN @ ELSE Append(@, x)], x, Tail(q))
RECURSIVE DropAll(_, _, _)
DropAll(s, x, q) == IF q = <<>> THEN s ELSE DropAll([s EXCEPT !.coll[Head(q)] = RemoveOne(@, x)], x, Tail(q))
DoReplace(s, x, new) ==
   LET old == s.coll[x]
       s1 == AddAll([s EXCEPT !.coll[x] = new], x, SelectSeq(new, LAMBDA y : y \notin Range(old)))
   IN DropAll(s1, x, SelectSeq(old, LAMBDA y : y \notin Range(new)))
Seqs2(S) == ({<<>>} \cup {<<a>> : a \in S} \cup {<<a, b>> : a \in S, b \in S}) \ {<<a, a>> : a \in S}
Step(name, arg, s) == st' = s /\ last' = [a |-> name, arg |-> arg, ret |-> "ok"]
AppendA == \E x \in Objs : \E y \in Other(x) : y \notin Range(st.coll[x]) /\ Step("Append", <<x, y>>, Link(st, x, y, FALSE))
InsertA == \E x \in Objs : \E y \in Other(x) : y \notin Range(st.coll[x]) /\ Len(st.coll[x]) > 0 /\ Step("Insert", <<x, y>>, Link(st, x, y, TRUE))
RemoveA == \E x \in Objs : \E y \in Range(st.coll[x]) : Step("Remove", <<x, y>>, Unlink(st, x, y))
PopA == \E x \in Objs : Len(st.coll[x]) > 0 /\ Step("Pop", <<x>>, Unlink(st, x, st.coll[x][Len(st.coll[x])]))
ReplaceA == \E x \in Objs : \E q \in Seqs2(Other(x)) : q # st.coll[x] /\ Step("Replace", <<x>> \o q, DoReplace(st, x, q))
Init == st = InitSt /\ last = [a |-> "init", arg |-> <<>>, ret |-> "ok"]
Next == AppendA \/ InsertA \/ RemoveA \/ PopA \/ ReplaceA
Spec == Init /\ [][Next]_vars
View == st
Emit == PrintT(ToJson([from |-> st, act |-> last', to |-> st']))
InitEmit == Init /\ PrintT(ToJson([init |-> st]))
Depth == TLCGet("level") <= MaxDepth
\* C37: r is in l.rs exactly when l is in r.ls
BothSidesMM == \A l \in Ls, r \in Rs : (r \in Range(st.coll[l])) <=> (l \in Range(st.coll[r]))
NoDuplicates == \A x \in Objs : Len(st.coll[x]) = Cardinality(Range(st.coll[x]))
=============================================================================
