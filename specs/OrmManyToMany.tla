---------------------------- MODULE OrmManyToMany ----------------------------
(* A MANY-TO-MANY pair L.rs (<-> R.ls when Bidir) through a secondary table lr(l_id -> l.id, r_id -> r.id), list collections:
   in-memory mutations from either side, session.delete() of an owner or member, flush, commit + reload - C37 (both lists agree, also
   after flush and reload) and C30 (association rows after a flush = membership pairs of the in-memory graph over session members; no
   association row references a row that is gone).

   coll[x]   the list held by x (x in Ls: its Rs; x in Rs, only when Bidir: its Ls)        ccoll[x]  its committed members (history base)
   life[x]   persistent | deleted (DELETE flushed, still the old Python object) | transient (fresh object after a reload: no row)
   marked    session.deleted           rows, assoc   the database inside the session's transaction (entity rows, association pairs <<l, r>>)
   Every object starts persistent and loaded (both collections); operations are enabled only between persistent objects.

   In memory: an operation on one list fires the backref on the partner's list (Bidir): append / insert / setitem -> append at the END of
   the partner's list (unconditionally); remove / pop / the displaced member of setitem -> remove (first occurrence) from the partner's
   list; bulk replace -> appends for the new members in order, then removes for the members that left; an extended-slice assignment
   (reverse) = one setitem per index, last index first.
   Flush (_ManyToManyDP): for a saved owner INSERT the pairs of its added members and DELETE the pairs of its removed members (each pair
   once even when both sides report it; members that are not in the session are skipped); for a DELETED owner DELETE the pairs of every
   member it had at the last commit (history.non_added(): unchanged AND removed-since); then the entity rows are deleted.  A flush whose
   resulting rows would leave an association row without its entity row fails with IntegrityError (foreign_keys=ON). *)
EXTENDS Integers, Sequences, FiniteSets, TLC, Json
CONSTANTS Ls, Rs, Bidir, Acts, InitMode, MaxDepth
VARIABLES st, last
vars == <<st, last>>
Objs == Ls \cup Rs
LAll == <<"l1", "l2", "l3">>
RAll == <<"r1", "r2", "r3">>
Other(x) == IF x \in Ls THEN Rs ELSE Ls
Owners == IF Bidir THEN Objs ELSE Ls
Pair(x, y) == IF x \in Ls THEN <<x, y>> ELSE <<y, x>>
Range(q) == {q[i] : i \in 1..Len(q)}
RemoveOne(q, x) == IF x \notin Range(q) THEN q
                   ELSE LET i == CHOOSE i \in 1..Len(q) : q[i] = x /\ \A j \in 1..(i-1) : q[j] # x
                        IN SubSeq(q, 1, i - 1) \o SubSeq(q, i + 1, Len(q))
\* ---------------------------------------------------------------- database -> freshly loaded session
Loaded(rows, assoc) ==
   [life |-> [x \in Objs |-> IF x \in rows THEN "persistent" ELSE "transient"],
    coll |-> [x \in Objs |-> IF x \notin rows \/ x \notin Owners THEN <<>>
                             ELSE IF x \in Ls THEN SelectSeq(RAll, LAMBDA r : r \in Rs /\ <<x, r>> \in assoc)
                             ELSE SelectSeq(LAll, LAMBDA l : l \in Ls /\ <<l, x>> \in assoc)],
    ccoll |-> [x \in Objs |-> IF x \notin rows \/ x \notin Owners THEN {}
                              ELSE IF x \in Ls THEN {r \in Rs : <<x, r>> \in assoc} ELSE {l \in Ls : <<l, x>> \in assoc}],
    marked |-> {}, rows |-> rows, assoc |-> assoc, dead |-> FALSE]
\* initial association rows: "linked" = every l with r1, l1 additionally with every r;  "bare" = none
LinkedAssoc == {<<l, "r1">> : l \in Ls} \cup {<<"l1", r>> : r \in Rs}
InitStates == (IF InitMode \in {"linked", "both"} THEN {Loaded(Objs, LinkedAssoc)} ELSE {})
              \cup (IF InitMode \in {"bare", "both"} THEN {Loaded(Objs, {})} ELSE {})
Mem(s, x) == s.life[x] = "persistent"
\* ---------------------------------------------------------------- in-memory list mutations (with backref when Bidir)
BackAppend(s, y, x) == IF Bidir THEN [s EXCEPT !.coll[y] = Append(@, x)] ELSE s
BackRemove(s, y, x) == IF Bidir THEN [s EXCEPT !.coll[y] = RemoveOne(@, x)] ELSE s
Link(s, x, y, front) == BackAppend([s EXCEPT !.coll[x] = IF front THEN <<y>> \o @ ELSE Append(@, y)], y, x)
Unlink(s, x, y) == BackRemove([s EXCEPT !.coll[x] = RemoveOne(@, y)], y, x)
RECURSIVE AddAll(_, _, _)
AddAll(s, x, q) == IF q = <<>> THEN s ELSE AddAll(BackAppend(s, Head(q), x), x, Tail(q))
RECURSIVE DropAll(_, _, _)
DropAll(s, x, q) == IF q = <<>> THEN s ELSE DropAll(BackRemove(s, Head(q), x), x, Tail(q))
DoReplace(s, x, new) ==
   LET old == s.coll[x]
       s1 == AddAll([s EXCEPT !.coll[x] = new], x, SelectSeq(new, LAMBDA y : y \notin Range(old)))
   IN DropAll(s1, x, SelectSeq(old, LAMBDA y : y \notin Range(new)))
\* list.__setitem__(i, y): remove event for the member in the slot, append event for y, then the slot is overwritten
SetItemAt(s, x, i, y) == LET e == s.coll[x][i] IN [BackAppend(BackRemove(s, e, x), y, x) EXCEPT !.coll[x] = [s.coll[x] EXCEPT ![i] = y]]
RECURSIVE ReverseFrom(_, _, _, _)
ReverseFrom(s, x, orig, k) == IF k > Len(orig) THEN s ELSE ReverseFrom(SetItemAt(s, x, Len(orig) - k + 1, orig[k]), x, orig, k + 1)
\* ---------------------------------------------------------------- Session.delete / flush / commit + reload
HAdded(s, x) == Range(s.coll[x]) \ s.ccoll[x]
HDel(s, x) == s.ccoll[x] \ Range(s.coll[x])
FlushCore(s) ==
   LET saved == {x \in Owners : Mem(s, x) /\ x \notin s.marked}
       ins == UNION {{Pair(x, y) : y \in {y \in HAdded(s, x) : Mem(s, y)}} : x \in saved}
       del == UNION {{Pair(x, y) : y \in {y \in HDel(s, x) : Mem(s, y)}} : x \in saved}
              \cup UNION {{Pair(x, y) : y \in {y \in s.ccoll[x] : Mem(s, y)}} : x \in s.marked \cap Owners}      \* history.non_added()
       assoc2 == (s.assoc \cup ins) \ del
       rows2 == s.rows \ s.marked
       sound == \A p \in assoc2 : p[1] \in rows2 /\ p[2] \in rows2
       dml == {<<"INSERT", "lr", p[1], p[2]>> : p \in ins \ del} \cup {<<"DELETE", "lr", p[1], p[2]>> : p \in del}
              \cup {<<"DELETE", "x", x, "-">> : x \in s.marked}
       s2 == [s EXCEPT !.assoc = assoc2, !.rows = rows2, !.marked = {},
                       !.life = [x \in Objs |-> IF x \in s.marked THEN "deleted" ELSE s.life[x]],
                       !.ccoll = [x \in Objs |-> IF x \in saved THEN Range(s.coll[x]) ELSE s.ccoll[x]]]
   IN IF sound THEN [st |-> s2, ret |-> "ok", dml |-> dml] ELSE [st |-> [s EXCEPT !.dead = TRUE], ret |-> "IntegrityError", dml |-> {}]
\* ---------------------------------------------------------------- actions
DeadSt == [Loaded({}, {}) EXCEPT !.dead = TRUE]
Step(name, arg, res, dml) == \E r \in {res} : \E d \in {dml} :
      /\ st' = (IF r.st.dead THEN DeadSt ELSE r.st)
      /\ last' = [a |-> name, arg |-> arg, ret |-> r.ret, dml |-> d]
Ok(s) == [st |-> s, ret |-> "ok"]
Enabled(a) == a \in Acts /\ ~st.dead
\* list operations need a persistent owner whose current members are all persistent; new members must be persistent too
Usable(x) == x \in Owners /\ Mem(st, x) /\ \A y \in Range(st.coll[x]) : Mem(st, y)
Seqs2(S) == ({<<>>} \cup {<<a>> : a \in S} \cup {<<a, b>> : a \in S, b \in S}) \ {<<a, a>> : a \in S}
AppendA == Enabled("Append") /\ \E x \in Objs : Usable(x) /\ \E y \in Other(x) : Mem(st, y) /\ y \notin Range(st.coll[x])
              /\ Step("Append", <<x, y>>, Ok(Link(st, x, y, FALSE)), {})
InsertA == Enabled("Insert") /\ \E x \in Objs : Usable(x) /\ Len(st.coll[x]) > 0 /\ \E y \in Other(x) : Mem(st, y) /\ y \notin Range(st.coll[x])
              /\ Step("Insert", <<x, y>>, Ok(Link(st, x, y, TRUE)), {})
RemoveA == Enabled("Remove") /\ \E x \in Objs : Usable(x) /\ \E y \in Range(st.coll[x]) : Step("Remove", <<x, y>>, Ok(Unlink(st, x, y)), {})
PopA == Enabled("Pop") /\ \E x \in Objs : Usable(x) /\ Len(st.coll[x]) > 0 /\ Step("Pop", <<x>>, Ok(Unlink(st, x, st.coll[x][Len(st.coll[x])])), {})
ReplaceA == Enabled("Replace") /\ \E x \in Objs : Usable(x) /\ \E q \in Seqs2({y \in Other(x) : Mem(st, y)}) : q # st.coll[x]
              /\ Step("Replace", <<x>> \o q, Ok(DoReplace(st, x, q)), {})
SetItemA == Enabled("SetItem") /\ \E x \in Objs : Usable(x) /\ \E i \in 1..Len(st.coll[x]) : \E y \in Other(x) :
              Mem(st, y) /\ (y = st.coll[x][i] \/ y \notin Range(st.coll[x])) /\ Step("SetItem", <<x, i - 1, y>>, Ok(SetItemAt(st, x, i, y)), {})
ReverseA == Enabled("Reverse") /\ \E x \in Objs : Usable(x) /\ Len(st.coll[x]) >= 2
              /\ Step("Reverse", <<x>>, Ok(ReverseFrom(st, x, st.coll[x], 1)), {})
DeleteA == Enabled("Delete") /\ \E x \in Objs : Mem(st, x) /\ x \notin st.marked /\ Step("Delete", <<x>>, Ok([st EXCEPT !.marked = @ \cup {x}]), {})
FlushA == Enabled("Flush") /\ \E f \in {FlushCore(st)} : Step("Flush", <<>>, [st |-> f.st, ret |-> f.ret], f.dml)
CommitReloadA == Enabled("CommitReload") /\ \E f \in {FlushCore(st)} :
              Step("CommitReload", <<>>, [st |-> IF f.st.dead THEN f.st ELSE Loaded(f.st.rows, f.st.assoc), ret |-> f.ret], f.dml)
Init == st \in InitStates /\ last = [a |-> "init", arg |-> <<>>, ret |-> "ok", dml |-> {}]
Next == AppendA \/ InsertA \/ RemoveA \/ PopA \/ ReplaceA \/ SetItemA \/ ReverseA \/ DeleteA \/ FlushA \/ CommitReloadA
Spec == Init /\ [][Next]_vars
View == st
Hist(s) == [x \in Owners |-> <<HAdded(s, x), Range(s.coll[x]) \cap s.ccoll[x], HDel(s, x)>>]
Emit == PrintT(ToJson([from |-> st, act |-> last', to |-> st', obs |-> [hist |-> Hist(st')]]))
InitEmit == Init /\ PrintT(ToJson([init |-> st]))
Depth == TLCGet("level") <= MaxDepth
\* ================================================================ properties
\* C37: r is in l.rs exactly when l is in r.ls - after every mutation, after flush, after commit + reload
BothSidesMM == Bidir => \A l \in Ls, r \in Rs : (r \in Range(st.coll[l])) <=> (l \in Range(st.coll[r]))
NoDuplicates == \A x \in Objs : Len(st.coll[x]) = Cardinality(Range(st.coll[x]))
\* C30: after a successful flush the entity rows are the session's members and the association rows are exactly the membership pairs
\* of the in-memory graph between members
Flushed == last.a \in {"Flush", "CommitReload"} /\ last.ret = "ok" /\ ~st.dead
RowsEqualGraphMM == Flushed =>
      /\ st.rows = {x \in Objs : Mem(st, x)}
      /\ st.assoc = {p \in Ls \X Rs : Mem(st, p[1]) /\ Mem(st, p[2]) /\ p[2] \in Range(st.coll[p[1]])}
      /\ st.marked = {}
\* no association row references an entity row that is gone - in every state
FkSoundMM == \A p \in st.assoc : p[1] \in st.rows /\ p[2] \in st.rows
\* rows change only when the unit of work writes them
RowsOnlyAtFlush == [][last'.a \notin {"Flush", "CommitReload"} => (st'.rows = st.rows /\ st'.assoc = st.assoc /\ st'.ccoll = st.ccoll)]_vars
=============================================================================
