---------------------------- MODULE TopoSort ----------------------------
(* util/topological.py: sort_as_subsets / sort / find_cycles, transcribed.

   Two uses, selected by the cfg's INIT:
   * InitSort / InitRandom : every (items order, deps) is ONE initial state; sort_as_subsets is
     deterministic, so it is the recursive operator Layers evaluated there. TLC checks SortOK
     (permutation, every dependency before its dependent, cycle <=> CycleMark) against the
     DECLARATIVE graph definitions, and prints one JSON case per state for the conformance replay.
   * InitCycles : find_cycles as a step machine in which the order of `for node in edges[top]`
     (Python set iteration) is NONDETERMINISTIC; TLC checks that for every order the result is
     exactly the set of nodes on some cycle (CyclesOK, CyclesSound), i.e. the result does not
     depend on hashing - something no test can vary.
   Nodes 1..N are items; nodes N+1..N+Extra may appear in deps but never in items. *)
EXTENDS Integers, Sequences, FiniteSets, TLC, Json, Randomization
CONSTANTS N, Extra, RandomGraphs, RandomEdges
Nodes == 1..N
AllNodes == 1..(N + Extra)
Perms == {p \in UNION {[1..k -> Nodes] : k \in 0..N} : \A i, j \in DOMAIN p : i # j => p[i] # p[j]}
VARIABLES items, deps, phase, roots, stack, todo, out
vars == <<items, deps, phase, roots, stack, todo, out>>

Range(s) == {s[i] : i \in 1..Len(s)}
ItemSet == Range(items)
\* ---------------- declarative side (the property's own words) ----------------
RECURSIVE Reach(_, _, _)
Reach(E, frontier, seen) == LET nxt == {e[2] : e \in {e \in E : e[1] \in frontier}} \ seen
                            IN IF nxt = {} THEN seen ELSE Reach(E, nxt, seen \cup nxt)
OnCycle(E, n) == n \in Reach(E, {n}, {})
CycleNodes(E) == {n \in {e[1] : e \in E} \cup {e[2] : e \in E} : OnCycle(E, n)}
InnerDeps == {e \in deps : e[1] \in ItemSet /\ e[2] \in ItemSet}
\* ---------------- sort_as_subsets as the code computes it ----------------
Parents(n) == {e[1] : e \in {e \in deps : e[2] = n}}
CycleMark == << <<-1>> >>
RECURSIVE Layers(_, _)
Layers(todoSeq, acc) ==
  IF todoSeq = <<>> THEN acc
  ELSE LET ts == Range(todoSeq)
           layer == SelectSeq(todoSeq, LAMBDA n : Parents(n) \cap ts = {})
       IN IF layer = <<>> THEN CycleMark
          ELSE Layers(SelectSeq(todoSeq, LAMBDA n : n \notin Range(layer)), Append(acc, layer))
SortResult == Layers(items, <<>>)
RECURSIVE Flatten(_)
Flatten(ls) == IF ls = <<>> THEN <<>> ELSE Head(ls) \o Flatten(Tail(ls))
Sorted == Flatten(SortResult)
\* ---------------- find_cycles step machine ----------------
Children(n) == {e[2] : e \in {e \in deps : e[1] = n}}
ToTest == {e[1] : e \in deps}
Case == [items |-> items, deps |-> deps, layers |-> SortResult,
         cyclic |-> (SortResult = CycleMark), cycles |-> CycleNodes(deps)]
Rest == /\ roots = {} /\ stack = <<>> /\ todo = {} /\ out = {}
InitSort == /\ items \in Perms /\ deps \in SUBSET (AllNodes \X AllNodes)
            /\ phase = "sortonly" /\ Rest
            /\ PrintT(ToJson(Case))
InitRandom == /\ items \in Perms /\ Len(items) >= N - 1
              /\ deps \in RandomSetOfSubsets(RandomGraphs, RandomEdges, AllNodes \X AllNodes)
              /\ phase = "sortonly" /\ Rest
              /\ PrintT(ToJson(Case))
InitCycles == /\ items = <<>> /\ deps \in SUBSET (AllNodes \X AllNodes)
              /\ phase = "pickroot" /\ roots = ToTest /\ stack = <<>> /\ todo = {} /\ out = {}
              /\ PrintT(ToJson(Case))
PickRoot == /\ phase = "pickroot" /\ roots # {}
            /\ \E r \in roots : /\ roots' = roots \ {r} /\ stack' = <<r>> /\ todo' = ToTest \ {r}
            /\ phase' = "scan" /\ UNCHANGED <<items, deps, out>>
Finish == /\ phase = "pickroot" /\ roots = {} /\ phase' = "done"
          /\ UNCHANGED <<items, deps, roots, stack, todo, out>>
Top == stack[Len(stack)]
CycFrom(n) == LET i == CHOOSE i \in 1..Len(stack) : stack[i] = n IN {stack[j] : j \in i..Len(stack)}
\* scan the children of Top in SOME order: the children in S are visited before the first todo-child c;
\* a todo child inside S would have been taken first, so S has no todo child *at the time it is visited*.
\* `todo` shrinks while S is visited (cycle members are removed), which the code also does in place:
\* we therefore process S one element at a time.
RECURSIVE VisitAll(_, _, _)
\* visit the set S of non-taken children in some order; returns <<out, todo>> sets reachable (as a set of pairs)
VisitAll(S, o, td) ==
  IF S = {} THEN {<<o, td>>}
  ELSE UNION { LET cyc == IF n \in Range(stack) THEN CycFrom(n) ELSE {}
                   td2 == td \ cyc
               IN IF n \in td2 THEN {}   \* n would be taken (append+break): not a member of the pre-break prefix
                  ELSE VisitAll(S \ {n}, o \cup cyc, td2)
             : n \in S }
Scan == /\ phase = "scan" /\ stack # <<>>
        /\ LET ch == Children(Top) IN
           \/ \E c \in ch : \E S \in SUBSET (ch \ {c}) : \E r \in VisitAll(S, out, todo) :
                 LET cyc == IF c \in Range(stack) THEN CycFrom(c) ELSE {}
                     td2 == r[2] \ cyc
                 IN /\ c \in td2
                    /\ out' = r[1] \cup cyc /\ todo' = td2 \ {c} /\ stack' = Append(stack, c)
           \/ \E r \in VisitAll(ch, out, todo) :
                 /\ out' = r[1] /\ todo' = r[2] /\ stack' = SubSeq(stack, 1, Len(stack) - 1)
        /\ phase' = IF stack' = <<>> THEN "pickroot" ELSE "scan"
        /\ UNCHANGED <<items, deps, roots>>
Next == PickRoot \/ Scan \/ Finish
Stutter == UNCHANGED vars
\* ---------------- properties ----------------
SortOK == phase = "sortonly" =>
          IF CycleNodes(InnerDeps) # {} THEN SortResult = CycleMark
          ELSE /\ SortResult # CycleMark
               /\ Len(Sorted) = Len(items) /\ Range(Sorted) = ItemSet
               /\ \A e \in InnerDeps : e[1] # e[2] =>
                     \E i, j \in 1..Len(Sorted) : Sorted[i] = e[1] /\ Sorted[j] = e[2] /\ i < j
CyclesOK == phase = "done" => out = CycleNodes(deps)
CyclesSound == out \subseteq CycleNodes(deps)
=============================================================================
