---------------------------- MODULE Upsert ----------------------------
(* C56: upsert statements insert or update exactly as their conflict clause says.

   Table u(id, k UNIQUE, v, w).  A behaviour: the rows that exist beforehand (keys in Existing, v = 20, w = 200 + k), a
   conflict clause, and a list of parameter sets (k, v, w) applied ONE AFTER THE OTHER - which is what SQLite does with
   the VALUES tuples of one statement, what cursor.executemany() does with a list, and what the engine does when it
   falls back to one statement per parameter set.  Action Apply takes the next parameter set:
       no row with that k            -> INSERT (k, v, w)
       row exists, DO NOTHING        -> nothing
       row exists, DO UPDATE SET ..  -> if the clause has no WHERE or  row.v < excluded.v : v := the SET expression; w untouched
   and appends the row image to `result` when the row was inserted or updated (RETURNING yields affected rows only).

   clauses:  "nothing"        ON CONFLICT (k) DO NOTHING             "nothing_any"    ON CONFLICT DO NOTHING
             "excluded"       DO UPDATE SET v = excluded.v            "excluded_where" .. WHERE u.v < excluded.v
             "literal"        DO UPDATE SET v = 77                    "literal_where"  .. WHERE u.v < excluded.v
             "sum"            DO UPDATE SET v = u.v + excluded.v      "sum_where"      .. WHERE u.v < excluded.v
             "param"          DO UPDATE SET v = :nv   (a bound parameter that differs per parameter set: nv = 500 + i)

   Values: parameter set i has v = lo/hi base + i (11..13 below the existing 20, 31..33 above it), w = 100 + i.
   The mechanism part (sql/compiler.py _deliver_insertmanyvalues_batches): executemany + RETURNING is sent as ONE multi-VALUES
   statement unless sort_by_parameter_order is requested (an upsert has no usable sentinel) or the SET clause holds a
   per-row bound parameter ("param", issue #13130): then one statement per parameter set - Statements(). *)
EXTENDS Integers, Sequences, FiniteSets, TLC, Json
CONSTANTS Keys,          \* e.g. {1, 2}
          MaxParams,
          Clauses,
          AllBases       \* TRUE: every parameter set's value is tried below (10+i) and above (30+i) the stored 20 for every clause;
                         \* FALSE: both only for the clauses with a WHERE (the only place where the comparison decides anything), above otherwise
VARIABLES st, last
vars == <<st, last>>
Absent == [v |-> 0, w |-> 0]
Bases(c) == IF AllBases \/ c \in {"excluded_where", "literal_where", "sum_where"} THEN {10, 30} ELSE {30}
IsUpdate(c) == c \notin {"nothing", "nothing_any"}
HasWhere(c) == c \in {"excluded_where", "literal_where", "sum_where"}
ParamSets(n, c) == [1..n -> [k : Keys, b : Bases(c)]]
PV(st_, i) == st_.params[i].b + i
PW(i) == 100 + i
\* the structure a compiled statement must show for the clause (compile-shape conformance on PostgreSQL / MySQL, and on SQLite itself)
SetKind(c) == IF c \in {"excluded", "excluded_where"} THEN "excluded" ELSE IF c \in {"literal", "literal_where"} THEN "literal"
              ELSE IF c \in {"sum", "sum_where"} THEN "sum" ELSE IF c = "param" THEN "param" ELSE "none"
Shape(c) == [update |-> IsUpdate(c), target |-> c # "nothing_any", where |-> HasWhere(c), set |-> SetKind(c)]
InitSt(existing, clause, params) ==
  [rows |-> [k \in Keys |-> IF k \in existing THEN [v |-> 20, w |-> 200 + k] ELSE Absent],
   existing |-> existing, clause |-> clause, shape |-> Shape(clause), params |-> params, i |-> 1, result |-> <<>>]
SetValue(c, old, exv, i) == IF c \in {"excluded", "excluded_where"} THEN exv
                            ELSE IF c \in {"literal", "literal_where"} THEN 77
                            ELSE IF c \in {"sum", "sum_where"} THEN old + exv
                            ELSE 500 + i
\* the insert-or-update model: one parameter set
DoApply(s) ==
  LET i == s.i
      k == s.params[i].k
      exv == PV(s, i)
      old == s.rows[k]
      conflict == old # Absent
      upd == conflict /\ IsUpdate(s.clause) /\ (IF HasWhere(s.clause) THEN old.v < exv ELSE TRUE)
      new == IF ~conflict THEN [v |-> exv, w |-> PW(i)]
             ELSE IF upd THEN [old EXCEPT !.v = SetValue(s.clause, old.v, exv, i)]
             ELSE old
      affected == ~conflict \/ upd
      outcome == IF ~conflict THEN "insert" ELSE IF upd THEN "update" ELSE "skip"
  IN [st |-> [s EXCEPT !.rows[k] = new, !.i = i + 1,
                       !.result = IF affected THEN Append(@, [i |-> i, k |-> k, v |-> new.v, w |-> new.w]) ELSE @],
      ret |-> outcome]
Apply == /\ st.i <= Len(st.params)
         /\ LET r == DoApply(st) IN st' = r.st /\ last' = [a |-> "Apply", i |-> st.i, k |-> st.params[st.i].k, ret |-> r.ret]
Init == /\ \E existing \in SUBSET Keys : \E clause \in Clauses : \E n \in 0..MaxParams : \E params \in ParamSets(n, clause) :
             st = InitSt(existing, clause, params)
        /\ last = [a |-> "init", i |-> 0, k |-> 0, ret |-> ""]
Next == Apply
Spec == Init /\ [][Next]_vars
View == st
Emit == PrintT(ToJson([from |-> st, act |-> last', to |-> st']))
InitEmit == Init /\ PrintT(ToJson([init |-> st]))
\* ---- mechanism: how many DBAPI statements an executemany of the whole list takes (n >= 2)
RowWise(c, ret, sort) == ret /\ (sort \/ c = "param")
\* ---------------------------------------------------------------- properties (C56)
Done == st.i > Len(st.params)
Present(k) == st.rows[k] # Absent
\* a key that was present stays present; a key is present at the end iff it existed or some parameter set names it
NoRowLost == [][\A k \in Keys : st.rows[k] # Absent => st'.rows[k] # Absent]_vars
OnlyTargetRowChanges == [][\A k \in Keys : k # last'.k => st'.rows[k] = st.rows[k]]_vars
\* DO NOTHING never changes an existing row; no clause ever changes w of an existing row
DoNothingPreserves == [][(~IsUpdate(st.clause) /\ st.rows[last'.k] # Absent) => st'.rows = st.rows]_vars
UpdateKeepsOtherColumns == [][\A k \in Keys : st.rows[k] # Absent => st'.rows[k].w = st.rows[k].w]_vars
\* insert exactly when there is no conflict, with the parameter set's own values
InsertWhenNoConflict == [][(st.rows[last'.k] = Absent) <=> (last'.ret = "insert")]_vars
InsertStoresParams == [][last'.ret = "insert" => st'.rows[last'.k] = [v |-> PV(st, last'.i), w |-> PW(last'.i)]]_vars
\* update exactly as the clause says
UpdateAsClauseSays ==
  [][ LET k == last'.k
          old == st.rows[k]
          exv == PV(st, last'.i)
      IN /\ (last'.ret = "update") <=> (old # Absent /\ IsUpdate(st.clause) /\ (HasWhere(st.clause) => old.v < exv))
         /\ last'.ret = "update" =>
              st'.rows[k].v = CASE st.clause \in {"excluded", "excluded_where"} -> exv
                                [] st.clause \in {"literal", "literal_where"} -> 77
                                [] st.clause \in {"sum", "sum_where"} -> old.v + exv
                                [] OTHER -> 500 + last'.i ]_vars
\* RETURNING: one row per affected parameter set, in parameter order, showing the row as that parameter set left it
ResultInOrder == \A a, b \in 1..Len(st.result) : a < b => st.result[a].i < st.result[b].i
ResultIsAffected == [][ (Len(st'.result) = Len(st.result) + 1) <=> (last'.ret # "skip") ]_vars
ResultShowsRow == [][ last'.ret # "skip" => LET r == st'.result[Len(st'.result)] IN
                        r.i = last'.i /\ r.k = last'.k /\ [v |-> r.v, w |-> r.w] = st'.rows[last'.k] ]_vars
\* at the end a key is present iff it existed before or some parameter set names it: nothing is lost, nothing invented
KeysAtEnd == Done => \A k \in Keys : Present(k) <=> (k \in st.existing \/ \E j \in 1..Len(st.params) : st.params[j].k = k)
=============================================================================
