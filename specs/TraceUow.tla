---------------------------- MODULE TraceUow ----------------------------
(* Code -> spec trace validation for C31: every DML statement the unit of work emitted during a flush (recorded with
   before_cursor_execute, parameters included, normalised to op / table / primary key / foreign-key values), in the order emitted,
   must be an ENABLED statement of ConstraintDB starting from the rows that were in the transaction before the flush.
   One TLC run (-workers 1) consumes every trace of the file (DESIGN Appendix J pattern: tid/l cursor, TLCSet(1) progress register,
   POSTCONDITION).  Trace kinds:
     "ok"    the flush succeeded on SQLite (foreign_keys=ON): every statement must be enabled, and the rows ConstraintDB ends with
             must equal the rows read back from SQLite (calibration of ConstraintDB's effect);
     "fail"  SQLite raised IntegrityError in the LAST recorded batch: every statement of the earlier batches must be enabled, some
             statement of the last batch must NOT be enabled (calibration of the guards against SQLite), and - when the harness supplied the intended final rows - that
             final state must itself violate a constraint: C31's antecedent ("whose final state satisfies the schema's foreign-key and
             NOT NULL constraints") is evaluated here, on the specification's terms, before a failed flush counts. *)
EXTENDS ConstraintDB, Json, IOUtils
Traces == JsonDeserialize(IOEnv.TRACE_FILE)
N == Len(Traces)
VARIABLES tid, l
tvars == <<tid, l, rows>>
SRange(q) == {q[i] : i \in 1..Len(q)}
SchemaOf(t) == SRange(Traces[t].schema)
FnOf(cols) == [c \in {x.col : x \in SRange(cols)} |-> (CHOOSE x \in SRange(cols) : x.col = c).val]
RowsOf(arr) == {[t |-> x.t, pk |-> x.pk, fk |-> FnOf(x.cols)] : x \in SRange(arr)}
Ev == Traces[tid].ev[l]
EvEnabled(S, R, e) == CASE e.op = "INSERT" -> CanInsert(S, R, [t |-> e.t, pk |-> e.pk, fk |-> FnOf(e.cols)])
                        [] e.op = "UPDATE" -> CanUpdate(S, R, e.t, e.pk, FnOf(e.cols))
                        [] e.op = "DELETE" -> CanDelete(S, R, e.t, e.pk)
EvApply(R, e) == CASE e.op = "INSERT" -> DoInsert(R, [t |-> e.t, pk |-> e.pk, fk |-> FnOf(e.cols)])
                   [] e.op = "UPDATE" -> DoUpdate(R, e.t, e.pk, FnOf(e.cols))
                   [] e.op = "DELETE" -> DoDelete(R, e.t, e.pk)
\* a failing flush: statements are consumed while enabled; the run must get stuck inside the LAST batch (one executemany call =
\* one batch: the DBAPI does not say which parameter set failed) - that is the calibration of the guards against SQLite
InLastBatch == Ev.batch = Traces[tid].ev[Len(Traces[tid].ev)].batch
Consume ==
   /\ tid <= N /\ l <= Len(Traces[tid].ev)
   /\ IF EvEnabled(SchemaOf(tid), rows, Ev) THEN rows' = EvApply(rows, Ev) /\ l' = l + 1
      ELSE Traces[tid].kind = "fail" /\ InLastBatch /\ UNCHANGED rows /\ l' = Len(Traces[tid].ev) + 2
   /\ UNCHANGED tid
\* l = Len+1: every statement was enabled;  l = Len+2: a failing flush got stuck in its last batch
EndOk == IF Traces[tid].kind = "ok" THEN l = Len(Traces[tid].ev) + 1 /\ rows = RowsOf(Traces[tid].final)
         ELSE l = Len(Traces[tid].ev) + 2 /\ (Traces[tid].has_intended => ~Consistent(SchemaOf(tid), RowsOf(Traces[tid].intended)))
NextTrace ==
   /\ tid <= N /\ l > Len(Traces[tid].ev)
   /\ EndOk
   /\ tid' = tid + 1 /\ l' = 1
   /\ rows' = IF tid + 1 <= N THEN RowsOf(Traces[tid + 1].init) ELSE {}
TInit == tid = 1 /\ l = 1 /\ rows = (IF N >= 1 THEN RowsOf(Traces[1].init) ELSE {}) /\ TLCSet(1, <<1, 1>>)
TNext == Consume \/ NextTrace
Progress == TLCSet(1, <<tid, l>>)
\* every state on the way satisfies the constraints (immediate checking)
StaysConsistent == tid <= N => Consistent(SchemaOf(tid), rows)
Why(p) == LET t == Traces[p[1]] IN
   IF p[2] <= Len(t.ev) THEN
      (IF t.kind = "fail" THEN "calibration: SQLite accepted a statement (it failed only in a later batch) that ConstraintDB does not enable"
       ELSE "C31: statement is not enabled in ConstraintDB (references a row not yet inserted / deletes a row still referenced / NULL in NOT NULL / duplicate key)")
   ELSE IF t.kind = "ok" THEN "calibration: rows after the flush differ from ConstraintDB's"
   ELSE IF p[2] = Len(t.ev) + 1 THEN "calibration: SQLite rejected a statement although ConstraintDB enables every recorded statement"
   ELSE "C31: the flush failed although the intended final state satisfies every constraint"
AllAccepted == LET p == TLCGet(1) IN
   IF p[1] = N + 1 THEN TRUE
   ELSE (PrintT(ToJson([rejected |-> Traces[p[1]].id, at |-> p[2], why |-> Why(p)])) /\ FALSE)
=============================================================================
