---------------------------- MODULE Catalog ----------------------------
(* A database catalog that ENFORCES existence, the way PostgreSQL does for DDL (C14, DESIGN 3.2).

   State: one record  cat = [tables, cons, idx]
       tables : set of table ids
       cons   : set of foreign-key constraints [n |-> name, s |-> from-table, d |-> to-table]
                (the graph of the function  fk id |-> <<from, to>> : names are unique, NamesUnique)
       idx    : set of indexes [n |-> name, t |-> table]

   Every DDL statement is a pair (guard, effect) of PURE operators over that record, so that the same
   definitions serve (a) the stand-alone state machine below, which TLC model-checks (NoDangling: no
   constraint references a missing table in any reachable state, ...), and (b) TraceCatalog, which replays
   DDL streams recorded from the real MetaData.create_all / drop_all through them.  Each guard is a
   conjunction of NAMED conjuncts; WhyX returns the names of the conjuncts that are false, which is what
   a trace rejection reports.

   A mode record m = [alter, sc, sd] selects the backend:
       alter : ALTER TABLE ADD/DROP CONSTRAINT exists               (PostgreSQL yes, SQLite no)
       sc    : CREATE TABLE / ADD CONSTRAINT need the referenced table to exist   (PostgreSQL)
       sd    : DROP TABLE is refused while another table still references it      (PostgreSQL; SQLite with
               foreign_keys=ON when referencing rows exist)
   PostgreSQL = [TRUE, TRUE, TRUE]; SQLite = [FALSE, FALSE, sd].                                          *)
EXTENDS Integers, Sequences, FiniteSets, TLC
CONSTANTS TableU,        \* table ids of the stand-alone model
          Mult,          \* foreign keys per ordered pair of tables in the stand-alone model (1 or 2)
          Alter, StrictCreate, StrictDrop
VARIABLE cat

Mode == [alter |-> Alter, sc |-> StrictCreate, sd |-> StrictDrop]
PgMode == [alter |-> TRUE, sc |-> TRUE, sd |-> TRUE]
EmptyCat == [tables |-> {}, cons |-> {}, idx |-> {}]
Names(S) == {x.n : x \in S}
Fail(name, holds) == IF holds THEN {} ELSE {name}

\* ------------------------------------------------------------------ CREATE TABLE t (... inline fks ...)
CT_absent(c, t) == t \notin c.tables
CT_own(t, fks) == \A f \in fks : f.s = t
CT_targets(m, c, t, fks) == m.sc => \A f \in fks : f.d \in c.tables \/ f.d = t
CT_names(c, fks) == Cardinality(Names(fks)) = Cardinality(fks) /\ Names(fks) \cap Names(c.cons) = {}
OkCreateTable(m, c, t, fks) == CT_absent(c, t) /\ CT_own(t, fks) /\ CT_targets(m, c, t, fks) /\ CT_names(c, fks)
WhyCreateTable(m, c, t, fks) ==
       Fail("CreateTable.table_does_not_exist_yet", CT_absent(c, t))
  \cup Fail("CreateTable.inline_fk_belongs_to_table", CT_own(t, fks))
  \cup Fail("CreateTable.inline_fk_target_exists_or_is_self", CT_targets(m, c, t, fks))
  \cup Fail("CreateTable.constraint_names_unused", CT_names(c, fks))
DoCreateTable(c, t, fks) == [c EXCEPT !.tables = @ \cup {t}, !.cons = @ \cup fks]

\* ------------------------------------------------------------------ ALTER TABLE f.s ADD CONSTRAINT f.n ... REFERENCES f.d
AC_alter(m) == m.alter
AC_src(c, f) == f.s \in c.tables
AC_dst(m, c, f) == m.sc => f.d \in c.tables
AC_name(c, f) == f.n \notin Names(c.cons)
OkAddConstraint(m, c, f) == AC_alter(m) /\ AC_src(c, f) /\ AC_dst(m, c, f) /\ AC_name(c, f)
WhyAddConstraint(m, c, f) ==
       Fail("AddConstraint.backend_supports_alter", AC_alter(m))
  \cup Fail("AddConstraint.source_table_exists", AC_src(c, f))
  \cup Fail("AddConstraint.target_table_exists", AC_dst(m, c, f))
  \cup Fail("AddConstraint.constraint_name_unused", AC_name(c, f))
DoAddConstraint(c, f) == [c EXCEPT !.cons = @ \cup {f}]

\* ------------------------------------------------------------------ ALTER TABLE t DROP CONSTRAINT n
DC_alter(m) == m.alter
DC_exists(c, t, n) == \E f \in c.cons : f.n = n /\ f.s = t
OkDropConstraint(m, c, t, n) == DC_alter(m) /\ DC_exists(c, t, n)
WhyDropConstraint(m, c, t, n) ==
       Fail("DropConstraint.backend_supports_alter", DC_alter(m))
  \cup Fail("DropConstraint.constraint_exists_on_table", DC_exists(c, t, n))
DoDropConstraint(c, t, n) == [c EXCEPT !.cons = {f \in @ : ~(f.n = n /\ f.s = t)}]

\* ------------------------------------------------------------------ DROP TABLE t   (no CASCADE)
DT_exists(c, t) == t \in c.tables
DT_unreferenced(m, c, t) == m.sd => \A f \in c.cons : f.d = t => f.s = t     \* no surviving FK from ANOTHER table
OkDropTable(m, c, t) == DT_exists(c, t) /\ DT_unreferenced(m, c, t)
WhyDropTable(m, c, t) ==
       Fail("DropTable.table_exists", DT_exists(c, t))
  \cup Fail("DropTable.no_fk_from_another_table_references_it", DT_unreferenced(m, c, t))
DoDropTable(c, t) == [tables |-> c.tables \ {t}, cons |-> {f \in c.cons : f.s # t}, idx |-> {i \in c.idx : i.t # t}]

\* ------------------------------------------------------------------ CREATE INDEX i.n ON i.t / DROP INDEX n
CI_table(c, i) == i.t \in c.tables
CI_name(c, i) == i.n \notin Names(c.idx)
OkCreateIndex(c, i) == CI_table(c, i) /\ CI_name(c, i)
WhyCreateIndex(c, i) == Fail("CreateIndex.table_exists", CI_table(c, i)) \cup Fail("CreateIndex.index_name_unused", CI_name(c, i))
DoCreateIndex(c, i) == [c EXCEPT !.idx = @ \cup {i}]
DI_exists(c, n) == n \in Names(c.idx)
OkDropIndex(c, n) == DI_exists(c, n)
WhyDropIndex(c, n) == Fail("DropIndex.index_exists", DI_exists(c, n))
DoDropIndex(c, n) == [c EXCEPT !.idx = {i \in @ : i.n # n}]

\* ================================================================== the stand-alone machine
FkU == {[n |-> <<s, d, k>>, s |-> s, d |-> d] : s \in TableU, d \in TableU, k \in 1..Mult}
IxU == {[n |-> t, t |-> t] : t \in TableU}

CreateTable == \E t \in TableU : \E fks \in SUBSET {f \in FkU : f.s = t} :
                  OkCreateTable(Mode, cat, t, fks) /\ cat' = DoCreateTable(cat, t, fks)
AddConstraint == \E f \in FkU : OkAddConstraint(Mode, cat, f) /\ cat' = DoAddConstraint(cat, f)
DropConstraint == \E f \in FkU : OkDropConstraint(Mode, cat, f.s, f.n) /\ cat' = DoDropConstraint(cat, f.s, f.n)
DropTable == \E t \in TableU : OkDropTable(Mode, cat, t) /\ cat' = DoDropTable(cat, t)
CreateIndex == \E i \in IxU : OkCreateIndex(cat, i) /\ cat' = DoCreateIndex(cat, i)
DropIndex == \E i \in IxU : OkDropIndex(cat, i.n) /\ cat' = DoDropIndex(cat, i.n)

Init == cat = EmptyCat
Next == CreateTable \/ AddConstraint \/ DropConstraint \/ DropTable \/ CreateIndex \/ DropIndex
Spec == Init /\ [][Next]_cat

\* ---------------- what "enforces existence" means, as invariants of every reachable catalog ----------------
TypeOK == cat.tables \subseteq TableU /\ cat.cons \subseteq FkU /\ cat.idx \subseteq IxU
NamesUnique == Cardinality(Names(cat.cons)) = Cardinality(cat.cons) /\ Cardinality(Names(cat.idx)) = Cardinality(cat.idx)
SrcExists == \A f \in cat.cons : f.s \in cat.tables                 \* every mode
IxIntegrity == \A i \in cat.idx : i.t \in cat.tables                \* every mode
NoDanglingOf(c) == \A f \in c.cons : f.s \in c.tables /\ f.d \in c.tables
NoDangling == NoDanglingOf(cat)                                     \* strict modes only (sc /\ sd)
\* ---------------- and as action properties ----------------
\* a table disappears only when nothing else references it; a constraint appears only with its target in place
DropIsSafe == [][\A t \in cat.tables \ cat'.tables : \A f \in cat.cons : f.d = t => f.s = t]_cat
AddIsSafe == [][\A f \in cat'.cons \ cat.cons : f.d \in cat'.tables /\ f.s \in cat'.tables]_cat
\* constraints and indexes vanish only explicitly or together with their own table (never as a side effect on another table)
NoCollateral == [][/\ \A f \in cat.cons \ cat'.cons : f.s \notin cat'.tables \/ cat'.tables = cat.tables
                   /\ \A i \in cat.idx \ cat'.idx : i.t \notin cat'.tables \/ cat'.tables = cat.tables]_cat
\* without ALTER the constraint set of an existing table never changes
NoAlterFrozen == [][~Alter => \A t \in cat.tables \cap cat'.tables :
                        {f \in cat.cons : f.s = t} = {f \in cat'.cons : f.s = t}]_cat
=============================================================================
