---------------------------- MODULE ExecOnce ----------------------------
(* C28, schedules part: _CompoundListener.exec_once / exec_once_unless_exception / _exec_w_sync_on_first_run
   (lib/sqlalchemy/event/attr.py) and util.only_once (the wrapper behind listen(..., once=True)) called by several threads.

   One step = one shared-memory operation of the code (the grain at which CPython can switch threads):
     chk0   exec_once[_unless_exception]:  `if not self._exec_once:`              (unlocked read of the flag)
     wchk   _exec_w_sync_on_first_run:     `if not self._exec_w_sync_once:`
     mget   _get_exec_once_mutex:          `if self._exec_once_mutex is not None:` (read; a miss creates a private Lock())
     mset   _get_exec_once_mutex:          `self._exec_once_mutex = mutex`        (publish the lock this thread created)
     acq    `with <mutex>:`                Lock.acquire (enabled only when that lock is free)
     chk1   _exec_once_impl:               `if not self._exec_once:`              (locked re-check)
     body / inbody                         `self(..)` begins / the listener returns or raises
     set    `self._exec_once = True`       wset  `self._exec_w_sync_once = True`
     rel    Lock.release at the end of the with block
     fbody / infbody                       _exec_w_sync_on_first_run's unlocked `else: self(..)`
     ochk   only_once.go: `if once:`       opop  `once_fn = once.pop()`  (IndexError when another thread popped first)
   util.mini_gil is a nullcontext on GIL builds (the interpreter in this sandbox), so mget..mset is NOT atomic:
   AtomicMutex = FALSE is the code as it runs here; AtomicMutex = TRUE is the same algorithm with the lazy creation
   made atomic (free-threaded build, or the proposed fix).

   A scenario (initial state) fixes the API each thread calls and on which of its executions the body raises. *)
EXTENDS Integers, Sequences, FiniteSets, TLC, Json
CONSTANTS NT,            \* number of threads
          AtomicMutex,   \* see above
          Families       \* subset of {"xo", "once"}
VARIABLES st, last
vars == <<st, last>>
Threads == 1..NT
XoOps == {"once", "unless", "sync"}
BoomSets == {{}, {1}, {1, 2}}      \* global indices of body executions that raise
InitSt(fam, ops, boom) ==
  [fam |-> fam, op |-> ops, boom |-> boom,
   pc |-> [t \in Threads |-> IF ops[t] = "sync" THEN "wchk" ELSE IF ops[t] = "fire" THEN "ochk" ELSE "chk0"],
   flag |-> FALSE, wflag |-> FALSE, mutex |-> 0, lk |-> [t \in Threads |-> 0], owner |-> [l \in Threads |-> 0],
   oncelist |-> TRUE, nbody |-> 0, inbody |-> {}, exc |-> [t \in Threads |-> FALSE],
   res |-> [t \in Threads |-> ""], ran |-> {},
   \* ghosts
   nfin |-> 0,          \* completed body runs of exec_once/_unless_exception that do not permit a retry
   wdone |-> FALSE,     \* a _exec_w_sync_on_first_run body has completed without raising
   mrace |-> FALSE,     \* two threads each created a mutex (lazy creation raced)
   early |-> FALSE]     \* some caller returned without running the body although no run had completed
\* ---------------------------------------------------------------- one step of thread t
Locked(s, t) == s.pc[t] \in {"chk1", "body", "inbody", "set", "wset", "rel"}
Enabled(s, t) == /\ s.pc[t] # "done"
                 /\ (s.pc[t] = "acq" => s.owner[s.lk[t]] = 0)
Do(s, t) ==
  LET p == s.pc[t]  o == s.op[t] IN
  CASE p = "chk0" -> IF s.flag THEN [s EXCEPT !.pc[t] = "done", !.res[t] = "ret", !.early = @ \/ s.nfin = 0]
                     ELSE [s EXCEPT !.pc[t] = "mget"]
    [] p = "wchk" -> IF s.wflag THEN [s EXCEPT !.pc[t] = "fbody"] ELSE [s EXCEPT !.pc[t] = "mget"]
    [] p = "mget" -> IF s.mutex # 0 THEN [s EXCEPT !.lk[t] = s.mutex, !.pc[t] = "acq"]
                     ELSE IF AtomicMutex THEN [s EXCEPT !.mutex = t, !.lk[t] = t, !.pc[t] = "acq"]
                     ELSE [s EXCEPT !.pc[t] = "mset"]
    [] p = "mset" -> [s EXCEPT !.mutex = t, !.lk[t] = t, !.pc[t] = "acq", !.mrace = @ \/ s.mutex # 0]
    [] p = "acq"  -> [s EXCEPT !.owner[s.lk[t]] = t, !.pc[t] = IF o = "sync" THEN "body" ELSE "chk1"]
    [] p = "chk1" -> IF s.flag THEN [s EXCEPT !.pc[t] = "rel", !.early = @ \/ s.nfin = 0] ELSE [s EXCEPT !.pc[t] = "body"]
    [] p = "body" -> [s EXCEPT !.nbody = @ + 1, !.inbody = @ \cup {t}, !.exc[t] = (s.nbody + 1) \in s.boom,
                               !.ran = @ \cup {t}, !.pc[t] = "inbody"]
    [] p = "inbody" ->
         IF o = "fire" THEN [s EXCEPT !.inbody = @ \ {t}, !.pc[t] = "done", !.res[t] = IF s.exc[t] THEN "raise" ELSE "ret"]
         ELSE IF o = "sync" THEN [s EXCEPT !.inbody = @ \ {t}, !.pc[t] = IF s.exc[t] THEN "rel" ELSE "wset",
                                           !.wdone = @ \/ ~s.exc[t]]
         ELSE LET final == ~s.exc[t] \/ o = "once"
              IN [s EXCEPT !.inbody = @ \ {t}, !.pc[t] = IF final THEN "set" ELSE "rel", !.nfin = IF final THEN @ + 1 ELSE @]
    [] p = "set"  -> [s EXCEPT !.flag = TRUE, !.pc[t] = "rel"]
    [] p = "wset" -> [s EXCEPT !.wflag = TRUE, !.pc[t] = "rel"]
    [] p = "rel"  -> [s EXCEPT !.owner[s.lk[t]] = 0, !.pc[t] = "done", !.res[t] = IF s.exc[t] THEN "raise" ELSE "ret"]
    [] p = "fbody" -> [s EXCEPT !.nbody = @ + 1, !.inbody = @ \cup {t}, !.exc[t] = (s.nbody + 1) \in s.boom,
                                !.ran = @ \cup {t}, !.pc[t] = "infbody"]
    [] p = "infbody" -> [s EXCEPT !.inbody = @ \ {t}, !.pc[t] = "done", !.res[t] = IF s.exc[t] THEN "raise" ELSE "ret"]
    [] p = "ochk" -> IF s.oncelist THEN [s EXCEPT !.pc[t] = "opop"] ELSE [s EXCEPT !.pc[t] = "done", !.res[t] = "ret"]
    [] p = "opop" -> IF s.oncelist THEN [s EXCEPT !.oncelist = FALSE, !.pc[t] = "body"]
                     ELSE [s EXCEPT !.pc[t] = "done", !.res[t] = "IndexError"]
    [] OTHER -> s
Step(t) == Enabled(st, t) /\ st' = Do(st, t) /\ last' = [t |-> t, p |-> st.pc[t], to |-> st'.pc[t]]
Scenarios ==
  (IF "xo" \in Families THEN {InitSt("xo", ops, b) : ops \in [Threads -> XoOps], b \in BoomSets} ELSE {})
  \cup (IF "once" \in Families THEN {InitSt("once", [t \in Threads |-> "fire"], b) : b \in {{}, {1}}} ELSE {})
Init == st \in Scenarios /\ last = [t |-> 0, p |-> "init", to |-> "init"]
Next == \E t \in Threads : Step(t)
Spec == Init /\ [][Next]_vars
View == st
Emit == PrintT(ToJson([from |-> st, act |-> last', to |-> st']))
InitEmit == Init /\ PrintT(ToJson([init |-> st]))
\* ================================================================ properties
OnceThreads == {t \in Threads : st.op[t] \in {"once", "unless"}}
SyncThreads == {t \in Threads : st.op[t] = "sync"}
\* exec_once / exec_once_unless_exception: the body runs to completion at most once, not counting runs that raised
\* when retry is allowed (the _unless_exception flavour)
BodyAtMostOnce == st.nfin <= 1
\* ... and no run begins once such a run has completed
NoRunAfterFinal == [][\A t \in OnceThreads : (st.pc[t] = "body" /\ st'.pc[t] = "inbody") => st.nfin = 0]_vars
\* a caller that returns without running the body does so only after a run has completed
NoEarlyReturn == ~st.early
\* _exec_w_sync_on_first_run: until the first successful run has completed, runs are serialised, and the unlocked
\* fast path is taken only afterwards
SyncFirstRunSerialised == /\ Cardinality({t \in Threads : st.pc[t] = "inbody"}) <= 1
                          /\ \A t \in SyncThreads : st.pc[t] \in {"fbody", "infbody"} => st.wdone
\* the mutex really excludes
MutexExcludes == Cardinality({t \in Threads : Locked(st, t)}) <= 1
\* util.only_once: the wrapped function body runs at most once, whatever happens
OnceFnAtMostOnce == st.fam = "once" => st.nbody <= 1
\* everything terminates with a result (no deadlock on the mutex)
Quiescent(s) == \A t \in Threads : s.pc[t] = "done"
NoDeadlock == Quiescent(st) \/ \E t \in Threads : Enabled(st, t)
\* the same properties on behaviours where the lazy mutex creation did not race (holds for the code as it is)
NoRace(P) == ~st.mrace => P
BodyAtMostOnce_NoRace == NoRace(BodyAtMostOnce)
SyncFirstRunSerialised_NoRace == NoRace(SyncFirstRunSerialised)
MutexExcludes_NoRace == NoRace(MutexExcludes)
NoEarlyReturn_NoRace == NoRace(NoEarlyReturn)
NoRunAfterFinal_NoRace == [][~st'.mrace => \A t \in OnceThreads : (st.pc[t] = "body" /\ st'.pc[t] = "inbody") => st.nfin = 0]_vars
=============================================================================
