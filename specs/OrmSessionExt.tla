---------------------------- MODULE OrmSessionExt ----------------------------
(* Extension of OrmSession.tla (which it EXTENDS unchanged) for C45 (merge), C46 (expire / refresh vs. an external writer),
   C47 (autoflush == flush-then-query), C48 (pending changes survive dropped references) and the ORM-object clause of C51
   (pickle round trip).  The state record `st` of the base module gets four more fields (records are functions: every
   base operator `[s EXCEPT ...]` carries them along):
     ref[o]   the application still holds a reference to model object o                     (C48)
     wr       the session's DBAPI connection holds an open write transaction               (C46, SQLite legacy mode)
     stale    ghost: objects whose loaded v may be older than an external write            (C46)
     lost     ghost: an object with an unflushed change was released by the session        (C48)
   and a sixth `life` value "gone" (garbage collected).  The base module's Next is re-enumerated here (NextX) because every
   step is post-processed (Post: garbage collection of unreferenced, unheld objects; write-lock tracking; staleness). *)
EXTENDS OrmSession
CONSTANTS Protos,       \* pickle protocols
          SrcKeys       \* primary keys of the merge sources
NullV == -3             \* SQL NULL in a row / None in an attribute
Gone == "gone"
VX(s) == [V(s) EXCEPT !.wr = FALSE]
InitStX == InitSt @@ [ref |-> [o \in Objs |-> TRUE], wr |-> FALSE, stale |-> {}, lost |-> FALSE]
\* ------------------------------------------------------------------ spare names
\* A model object that is transient and unknown to every transaction snapshot is only a placeholder: an instance the ORM
\* creates itself (merge(), unpickling) takes over the first such name (the binding rebinds the name to the new instance).
Spare(s, o) == /\ s.life[o] = "transient" /\ s.ref[o]
               /\ \A i \in 1..Len(s.tx) : o \notin s.tx[i].new \cup s.tx[i].dirty \cup s.tx[i].deleted /\ s.tx[i].ksw[o] = NoKey
SpareOf(s) == LET c == SelectSeq(ObjOrder, LAMBDA o : Spare(s, o)) IN IF c = <<>> THEN NoObj ELSE c[1]
Blank(s, o) == [s EXCEPT !.key[o] = NoKey, !.pk[o] = 0, !.v[o] = NullV, !.exp[o] = BothAttrs, !.mod[o] = FALSE, !.cv[o] = NoHist,
                         !.wasdel[o] = FALSE, !.untr = @ \ {o}, !.stale = @ \ {o}]
\* ------------------------------------------------------------------ C45: Session.merge(src, load=...)
\* src = [kind, k, S, x]: kind "T" transient T(id=k[, v=x]); "D" clean detached copy with identity key k and the attribute
\* subset S loaded (id = k, v = x); "Dm" detached copy whose v was set after detaching (state.modified)
Srcs == {r \in [kind : {"T", "D", "Dm"}, k : SrcKeys, S : SUBSET BothAttrs, x : Vals] :
            /\ ("v" \notin r.S => r.x = 0)
            /\ (r.kind = "T" => "id" \in r.S)
            /\ (r.kind = "Dm" => "v" \in r.S)}
\* ColumnProperty.merge with load=True: impl.set() per loaded attribute in mapper order (id, v); the primary key attribute has
\* active history, so setting it on an expired persistent target loads the expired attributes first (one SELECT, no autoflush)
CopyAttrs(s, t, src) ==
  LET a1 == IF "id" \in src.S
            THEN IF "id" \in s.exp[t] /\ s.key[t] # NoKey
                 THEN LET s1 == Sql(AutoBegin(s), 1) IN
                      IF s1.work[s1.key[t]] = Absent THEN R(s1, "ObjectDeletedError")
                      ELSE R([LoadObj(s1, t) EXCEPT !.pk[t] = src.k, !.mod[t] = TRUE], "ok")
                 ELSE R([AutoBegin(s) EXCEPT !.pk[t] = src.k, !.mod[t] = TRUE, !.exp[t] = @ \ {"id"}], "ok")
            ELSE R(s, "ok")
  IN IF a1.ret # "ok" THEN a1 ELSE IF "v" \in src.S THEN DoSetV(a1.st, t, src.x) ELSE a1
\* load=False: values go straight into the dict, then _commit_all() removes every history of the target
CopyRaw(s, t, src) == [s EXCEPT !.pk[t] = IF "id" \in src.S THEN src.k ELSE @, !.v[t] = IF "v" \in src.S THEN src.x ELSE @,
                                !.exp[t] = @ \ src.S, !.mod[t] = FALSE, !.cv[t] = NoHist]
WithRet(r, ret) == IF r.ret = "ok" THEN R(r.st, ret) ELSE r
DoMerge(s, src, load) ==
  LET k == src.k IN
  IF load THEN
    LET f == DoFlush(s) IN          \* Session._autoflush()
    IF f.ret # "ok" THEN f
    ELSE LET s1 == f.st t0 == s1.imap[k] IN
         IF t0 # NoObj THEN WithRet(CopyAttrs(s1, t0, src), "obj:" \o t0)      \* identity_map.get(key): no load, no check
         ELSE LET s2 == Sql(AutoBegin(s1), 1)                                   \* Session.get() under no_autoflush: SELECT by key
                  sp == SpareOf(s2) IN
              IF sp = NoObj THEN R(s2, "nospare")
              ELSE IF s2.work[k] # Absent
              THEN LET s3 == Ev([Blank(s2, sp) EXCEPT !.life[sp] = "persistent", !.key[sp] = k, !.imap[k] = sp, !.pk[sp] = k,
                                                        !.v[sp] = s2.work[k], !.exp[sp] = {}], "loaded_as_persistent", sp)
                   IN WithRet(CopyAttrs(s3, sp, src), "new:" \o sp)
              ELSE IF src.S # BothAttrs THEN R(s2, "nospare")        \* a new row from a partially loaded source (NULL / missing pk): not generated
              ELSE LET s3 == Ev([Blank(s2, sp) EXCEPT !.life[sp] = "pending", !.new = Append(@, sp)], "transient_to_pending", sp)
                   IN WithRet(CopyAttrs(s3, sp, src), "new:" \o sp)
  ELSE IF src.kind = "T" THEN R(s, "InvalidRequestError")
  ELSE LET t0 == s.imap[k] IN
       IF t0 # NoObj THEN R(CopyRaw(s, t0, src), "obj:" \o t0)
       ELSE IF src.kind = "Dm" THEN R(s, "InvalidRequestError")
       ELSE LET sp == SpareOf(s) IN
            IF sp = NoObj \/ s.work[k] = Absent THEN R(s, "nospare")      \* load=False is for copies of rows that exist (documented)
            ELSE LET s1 == Ev([Blank(AutoBegin(s), sp) EXCEPT !.life[sp] = "persistent", !.key[sp] = k, !.imap[k] = sp, !.pk[sp] = k, !.v[sp] = 0],
                              "detached_to_persistent", sp)
                 IN R(CopyRaw(s1, sp, src), "new:" \o sp)
\* merge of a detached copy whose identity key carries an identity token (loaded elsewhere with identity_token="tk"): the
\* identity (k, "tk") is never in this session's identity map (the binding expunges the result again within the step), so
\* merge autoflushes, SELECTs through Session.get(..., identity_token="tk") and returns a NEW instance keyed (k, "tk") - never
\* the entry of (k, None), which stays untouched - or, without a row, a new pending instance
DoMergeTok(s, k) ==
  LET f == DoFlush(s) IN
  IF f.ret # "ok" THEN f
  ELSE LET s2 == Sql(AutoBegin(f.st), 1) IN R(s2, IF s2.work[k] # Absent THEN "tok:persistent" ELSE "tok:pending")
SrcOfArg(a) == [kind |-> a[1], k |-> a[2], S |-> (IF a[3] THEN {"id"} ELSE {}) \cup (IF a[4] THEN {"v"} ELSE {}), x |-> a[5]]
ArgOfSrc(src, load) == <<src.kind, src.k, "id" \in src.S, "v" \in src.S, src.x, load>>
\* ------------------------------------------------------------------ C46: partial expiry, attribute read, queries, external writer
DoExpireV(s, o) == IF ~InMapS(s, o) THEN R(s, "InvalidRequestError")
                   ELSE R([s EXCEPT !.exp[o] = @ \cup {"v"}, !.v[o] = 0, !.cv[o] = NoHist], "ok")
\* session.refresh(o, ["v"]): partial expiry, autoflush, one SELECT that loads v only
DoRefreshV(s, o) ==
  IF ~InMapS(s, o) THEN R(s, "InvalidRequestError")
  ELSE LET s0 == DoExpireV(s, o).st f == DoFlush(s0) IN
       IF f.ret # "ok" THEN f
       ELSE IF s.needrb THEN R(f.st, "PendingRollbackError")
       ELSE IF ~InMapS(f.st, o) THEN R(f.st, "InvalidRequestError")
       ELSE LET s1 == Sql(AutoBegin(f.st), 1) IN
            IF s1.work[s1.key[o]] = Absent THEN R(s1, "InvalidRequestError")
            ELSE R([s1 EXCEPT !.v[o] = s1.work[s1.key[o]], !.exp[o] = @ \ {"v"}], "ok")
Val(x) == "val:" \o ToString(x)
\* getattr(o, "v"): from the dict when loaded, else InstanceState._load_expired (autoflush, one SELECT by identity key)
DoRead(s, o) ==
  IF "v" \notin s.exp[o] THEN R(s, Val(s.v[o]))
  ELSE LET l == LoadExpired(s, o) IN IF l.ret # "ok" THEN l ELSE R(l.st, Val(l.st.v[o]))
QNames(s, K) == LET F[i \in 0..Cardinality(Keys)] ==
                       IF i = 0 THEN "q"
                       ELSE IF i \in K THEN F[i - 1] \o ":" \o (IF s.imap[i] # NoObj THEN s.imap[i] ELSE "new") ELSE F[i - 1]
                IN F[Cardinality(Keys)]
\* rows K of the result meet the identity map: populate_existing overwrites everything (and forgets history); otherwise
\* only the unloaded attributes of an existing instance are populated.  Rows without an instance give new instances, which
\* the application drops at once ("new").
QueryCore(s, K, pe) ==
  LET hit == {o \in Objs : InMapS(s, o) /\ s.key[o] \in K}
      full == IF pe THEN hit ELSE {}
      part == hit \ full
  IN [s EXCEPT !.v = [o \in Objs |-> IF o \in full \/ (o \in part /\ "v" \in s.exp[o]) THEN s.work[s.key[o]] ELSE s.v[o]],
               !.pk = [o \in Objs |-> IF o \in full \/ (o \in part /\ "id" \in s.exp[o]) THEN s.key[o] ELSE s.pk[o]],
               !.exp = [o \in Objs |-> IF o \in hit THEN {} ELSE s.exp[o]],
               !.mod = [o \in Objs |-> IF o \in full THEN FALSE ELSE s.mod[o]],
               !.cv = [o \in Objs |-> IF o \in full THEN NoHist ELSE s.cv[o]],
               !.untr = @ \ full, !.stale = @ \ full]
DoQuery(s, sel, pe) ==      \* sel = -1: all rows; otherwise WHERE v = sel
  IF s.needrb THEN R(s, "PendingRollbackError")
  ELSE LET f == DoFlush(AutoBegin(s)) IN
       IF f.ret # "ok" THEN f
       ELSE LET s1 == Sql(f.st, 1)
                K == {k \in Keys : s1.work[k] # Absent /\ (sel = -1 \/ s1.work[k] = sel)}
            IN R(QueryCore(s1, K, pe), QNames(s1, K))
\* queries whose entities are not mapped classes: plain Table columns, func.count, a literal over select_from(table) - through the
\* legacy Query ("lcols", "lcount", "lfilt"), through Session.execute(select(table columns)) ("ccols", "ccount") and over mapped
\* attributes ("ocols", "ocount").  All of them autoflush; they return rows / a number, never instances (no identity-map effect).
CKinds == {"lcols", "lcount", "lfilt", "ccols", "ccount", "ocols", "ocount"}
RowStr(w) == LET F[i \in 0..Cardinality(Keys)] ==
                   IF i = 0 THEN "rows"
                   ELSE IF w[i] # Absent THEN F[i - 1] \o ":" \o ToString(i) \o "=" \o ToString(w[i]) ELSE F[i - 1]
             IN F[Cardinality(Keys)]
CResult(w, kind, x) == IF kind \in {"lcols", "ccols", "ocols"} THEN RowStr(w)
                       ELSE IF kind = "lfilt" THEN "n:" \o ToString(Cardinality({k \in Keys : w[k] = x}))
                       ELSE "n:" \o ToString(Cardinality({k \in Keys : w[k] # Absent}))
DoQueryC(s, kind, x) ==
  IF s.needrb THEN R(s, "PendingRollbackError")
  ELSE LET f == DoFlush(AutoBegin(s)) IN
       IF f.ret # "ok" THEN f ELSE LET s1 == Sql(f.st, 1) IN R(s1, CResult(s1.work, kind, x))
CArgs == {<<k, -1>> : k \in CKinds \ {"lfilt"}} \cup {<<"lfilt", x>> : x \in Vals}
\* another connection commits a write; possible only while the session's connection holds no write transaction (legacy
\* pysqlite mode: BEGIN is emitted before the first DML statement only, reads hold no lock between statements), and then the
\* session's reads see the committed rows as they are now (the snapshot rule)
ExtWrite(s, k, val) ==
  LET db == [s.committed EXCEPT ![k] = val] IN
  [s EXCEPT !.committed = db, !.work = db, !.refc = db,
            !.tx = [i \in 1..Len(s.tx) |-> [s.tx[i] EXCEPT !.snap = db]],
            !.stale = @ \cup {o \in Objs : InMapS(s, o) /\ s.key[o] = k /\ "v" \notin s.exp[o]}]
\* ------------------------------------------------------------------ C47: flush(), then the same read with autoflush off
FThen(s, q(_)) == LET f == DoFlush(s) IN
                  IF f.ret # "ok" THEN R(f.st, f.ret \o "/-") ELSE LET r == q(f.st) IN R(r.st, "ok/" \o r.ret)
\* ------------------------------------------------------------------ C51: pickle round trip
\* the unpickled instance is a new Python object outside every session: detached when the original had an identity key, else
\* transient; same dict, same expired attributes, same history; InstanceState._deleted is not pickled
CopyTo(s, o, sp) == [Blank(s, sp) EXCEPT !.life[sp] = IF s.key[o] # NoKey THEN "detached" ELSE "transient", !.key[sp] = s.key[o],
                                         !.pk[sp] = s.pk[o], !.v[sp] = s.v[o], !.exp[sp] = s.exp[o], !.mod[sp] = s.mod[o], !.cv[sp] = s.cv[o]]
DoPickle(s, o) ==
  IF Attached(s, o) THEN LET sp == SpareOf(s) IN IF sp = NoObj \/ sp = o THEN R(s, "nospare") ELSE R(CopyTo(s, o, sp), "new:" \o sp)
  ELSE \* the copy replaces the original under the same name; the transaction snapshots only know the original
       R([s EXCEPT !.wasdel[o] = FALSE,
                   !.tx = [i \in 1..Len(s.tx) |-> [s.tx[i] EXCEPT !.new = @ \ {o}, !.dirty = @ \ {o}, !.deleted = @ \ {o}, !.ksw[o] = NoKey]]], "self")
\* ------------------------------------------------------------------ post-processing of every step
NonFlushers == {"Add", "SetV", "Delete", "Expire", "ExpireAll", "ExpireV", "Rollback", "Close", "ExtSet", "ExtDel", "DropRef", "Pickle",
                "Expunge", "MakeTransient", "PickleOpt"}
\* what keeps an unreferenced object alive: session._new / session._deleted (strong), identity_map._modified + state._strong_obj
Held(s, o) == o \in Range(s.new) \/ o \in s.sdel \/ (InMapS(s, o) /\ s.mod[o])
\* an unflushed change, by value (not by the modified flag)
HasChange(s, o) == s.life[o] = "pending" \/ o \in s.sdel \/ (InMapS(s, o) /\ (VChanged(s, o) \/ PkChanged(s, o)))
Collect(s) ==
  LET G == {o \in Objs : ~s.ref[o] /\ s.life[o] # Gone /\ ~Held(s, o)} IN
  IF G = {} THEN s
  ELSE [s EXCEPT !.life = [o \in Objs |-> IF o \in G THEN Gone ELSE s.life[o]],
                 !.imap = [k \in Keys |-> IF s.imap[k] \in G THEN NoObj ELSE s.imap[k]],
                 !.lost = @ \/ \E o \in G : HasChange(s, o),
                 !.stale = @ \ G, !.untr = @ \ G,
                 !.tx = [i \in 1..Len(s.tx) |-> [s.tx[i] EXCEPT !.new = @ \ G, !.dirty = @ \ G, !.deleted = @ \ G]]]
Post(s0, a, s1) ==
  LET c == Collect(s1) IN
  [c EXCEPT !.wr = IF c.tx = <<>> THEN FALSE ELSE s0.wr \/ (a \notin NonFlushers /\ ~Clean(s0)),
            !.stale = {o \in @ : InMapS(c, o) /\ "v" \notin c.exp[o]}]
Refreshed(name, arg, ret) == IF name \in {"Refresh", "FRefresh", "RefreshV"} /\ ret \in {"ok", "ok/ok"} THEN {arg[1]} ELSE {}
StepX(name, arg, res) == \E r \in {res} : \E s1 \in {Post(st, name, [r.st EXCEPT !.stale = @ \ Refreshed(name, arg, r.ret)])} :
                           st' = s1 /\ last' = [a |-> name, arg |-> arg, ret |-> r.ret, ev |-> r.st.ev, sql |-> r.st.sql]
InitX == st = InitStX /\ last = [a |-> "init", arg |-> <<>>, ret |-> "ok", ev |-> {}, sql |-> 0]
InitEmitX == InitX /\ PrintT(ToJson([init |-> V(st)]))
ReadOkS(s, o) == s.life[o] \in {"pending", "persistent"} /\ o \notin s.sdel
Alive(o) == st.ref[o] /\ st.life[o] # Gone
ReadOk(o) == st.life[o] \in {"pending", "persistent"} /\ o \notin st.sdel /\ (st.life[o] = "pending" => "v" \notin st.exp[o])
NextX == ~st.taint /\
  \/ \E o \in Objs : Alive(o) /\
       \/ (RowExists(o) /\ AddOk(o) /\ StepX("Add", <<o>>, DoAdd(Clear(st), o)))
       \/ (On("SetV") /\ st.life[o] # "deleted" /\ ~(st.life[o] = "detached" /\ ~Loaded(o))
           /\ \E x \in Vals : StepX("SetV", <<o, x>>, DoSetV(Clear(st), o, x)))
       \/ (On("SetPk") /\ st.life[o] # "deleted" /\ ~(st.life[o] = "detached" /\ ~Loaded(o))
           /\ \E k \in Keys : k # st.pk[o] /\ StepX("SetPk", <<o, k>>, DoSetPk(Clear(st), o, k)))
       \* (the base flush loads every not fully loaded object before its DELETE; the ORM does so only for expired primary keys:
       \*  an object with only v expired is not deleted)
       \/ (RowExists(o) /\ ~(st.wasdel[o] /\ st.life[o] \in {"deleted", "detached"}) /\ st.exp[o] # {"v"} /\ StepX("Delete", <<o>>, DoDelete(Clear(st), o)))
       \/ (On("Expunge") /\ StepX("Expunge", <<o>>, DoExpunge(Clear(st), o)))
       \/ (On("Expire") /\ StepX("Expire", <<o>>, DoExpire(Clear(st), o)))
       \* partial expiry of fully loaded objects that are not marked deleted (see above; an object with expired id AND the
       \* modified flag but no net change is loaded by the real flush, which the base module does not model)
       \/ (On("ExpireV") /\ (InMapS(st, o) => st.exp[o] = {} /\ o \notin st.sdel) /\ StepX("ExpireV", <<o>>, DoExpireV(Clear(st), o)))
       \* (not while a pending object carries o's primary key: the base flush loads a partially expired colliding entry, the ORM does not)
       \/ (On("ExpireV") /\ (InMapS(st, o) => st.exp[o] = {} /\ o \notin st.sdel /\ \A p \in Range(st.new) : st.pk[p] # st.key[o])
           /\ StepX("RefreshV", <<o>>, DoRefreshV(Clear(st), o)))
       \/ (On("Refresh") /\ StepX("Refresh", <<o>>, DoRefresh(Clear(st), o)))
       \/ (On("FRefresh") /\ ~st.needrb /\ StepX("FRefresh", <<o>>, FThen(Clear(st), LAMBDA s : DoRefresh(s, o))))
       \/ (On("Read") /\ ReadOk(o) /\ StepX("Read", <<o>>, DoRead(Clear(st), o)))
       \/ (On("FRead") /\ ReadOk(o) /\ ~st.needrb /\ StepX("FRead", <<o>>, FThen(Clear(st), LAMBDA s : IF ReadOkS(s, o) THEN DoRead(s, o) ELSE R(s, "-"))))
       \/ (On("DropRef") /\ Attached(st, o) /\ StepX("DropRef", <<o>>, R([Clear(st) EXCEPT !.ref[o] = FALSE], "ok")))
       \/ (On("Pickle") /\ \E p \in Protos : \E r \in {DoPickle(Clear(st), o)} : r.ret # "nospare" /\ StepX("Pickle", <<o, p>>, r))
  \/ StepX("Flush", <<>>, DoFlush(Clear(st)))
  \/ StepX("Commit", <<>>, DoCommit(Clear(st))) \/ StepX("Rollback", <<>>, DoRollback(Clear(st)))
  \* (an unreferenced object that the autoflush inside get() makes clean is collected before the SELECT: not generated)
  \* (nor while an entry has only v expired: the base get() refreshes every not fully loaded entry, the ORM only expired ones)
  \/ (On("Get") /\ (Clean(st) \/ \A o \in Objs : st.ref[o] \/ st.life[o] = Gone) /\ (\A o \in Objs : InMapS(st, o) => st.exp[o] # {"v"}) /\ \E k \in Keys : StepX("Get", <<k>>, DoGet(Clear(st), k)))
  \/ (On("FGet") /\ ~st.needrb /\ \E k \in Keys : StepX("FGet", <<k>>, FThen(Clear(st), LAMBDA s : DoGet(s, k))))
  \/ (On("Expire") /\ StepX("ExpireAll", <<>>, DoExpireAll(Clear(st))))
  \/ (On("Close") /\ StepX("Close", <<>>, DoClose(Clear(st))))
  \/ (On("Query") /\ \E pe \in BOOLEAN : StepX("QueryAll", <<pe>>, DoQuery(Clear(st), -1, pe)))
  \/ (On("QueryV") /\ \E x \in Vals : StepX("QueryV", <<x>>, DoQuery(Clear(st), x, FALSE)))
  \/ (On("QueryC") /\ \E a \in CArgs : StepX("QueryC", a, DoQueryC(Clear(st), a[1], a[2])))
  \/ (On("QueryC") /\ On("FQuery") /\ ~st.needrb /\ \E a \in CArgs : StepX("FQueryC", a, FThen(Clear(st), LAMBDA s : DoQueryC(s, a[1], a[2]))))
  \/ (On("FQuery") /\ ~st.needrb /\ \E pe \in BOOLEAN : StepX("FQueryAll", <<pe>>, FThen(Clear(st), LAMBDA s : DoQuery(s, -1, pe))))
  \/ (On("FQuery") /\ On("QueryV") /\ ~st.needrb /\ \E x \in Vals : StepX("FQueryV", <<x>>, FThen(Clear(st), LAMBDA s : DoQuery(s, x, FALSE))))
  \/ (On("Merge") /\ ~st.needrb /\ \E src \in Srcs : \E load \in (IF src.kind = "Dm" THEN {FALSE} ELSE BOOLEAN) :
         \E r \in {DoMerge(Clear(st), src, load)} : r.ret # "nospare" /\ StepX("Merge", ArgOfSrc(src, load), r))
  \/ (On("MergeTok") /\ ~st.needrb /\ \E k \in Keys : st.committed[k] # Absent /\ StepX("MergeTok", <<k>>, DoMergeTok(Clear(st), k)))
  \* an instance that ANOTHER session loaded with a per-instance loader option (defer(T.v)) - optionally expired afterwards - is
  \* pickled, unpickled and re-attached to a third session: reading v there gives the committed row's value; this session is untouched
  \/ (On("PickleOpt") /\ \E k \in Keys : \E p \in Protos : \E e \in {"expired", "deferred"} :
         st.committed[k] # Absent /\ StepX("PickleOpt", <<k, p, e>>, R(Clear(st), Val(st.committed[k]))))
  \/ (On("Ext") /\ ~st.wr /\ \E k \in Keys :
         \/ \E x \in Vals : st.committed[k] # x /\ StepX("ExtSet", <<k, x>>, R(ExtWrite(Clear(st), k, x), "ok"))
         \/ (st.committed[k] # Absent /\ StepX("ExtDel", <<k>>, R(ExtWrite(Clear(st), k, Absent), "ok"))))
SpecX == InitX /\ [][NextX]_vars
\* ================================================================== properties
RetObj(r) == IF \E o \in Objs : r \in {"obj:" \o o, "new:" \o o} THEN CHOOSE o \in Objs : r \in {"obj:" \o o, "new:" \o o} ELSE NoObj
IsMerge == last'.a = "Merge" /\ RetObj(last'.ret) # NoObj
\* ---------- C45
\* merge returns THE instance of the source's identity: the identity map's entry, or (no such row) a new pending instance
MergeReturnsIdentity == [][ IsMerge =>
    LET t == RetObj(last'.ret) k == last'.arg[2] IN
    \/ (st'.life[t] = "persistent" /\ st'.key[t] = k /\ st'.imap[k] = t)
    \/ (st'.life[t] = "pending" /\ st'.pk[t] = k /\ st'.imap[k] = NoObj /\ last'.arg[6]) ]_vars
\* an instance the identity map already had is the one returned (never a second one)
MergeUsesExisting == [][ (IsMerge /\ ~last'.arg[6] /\ st.imap[last'.arg[2]] # NoObj) => last'.ret = "obj:" \o st.imap[last'.arg[2]] ]_vars
\* every attribute loaded on the source is copied
MergeCopiesLoaded == [][ IsMerge =>
    LET t == RetObj(last'.ret) src == SrcOfArg(last'.arg) IN
    /\ ("id" \in src.S => "id" \notin st'.exp[t] /\ st'.pk[t] = src.k)
    /\ ("v" \in src.S => "v" \notin st'.exp[t] /\ st'.v[t] = src.x) ]_vars
\* an attribute not loaded on the source is not touched: the target keeps its value, or has the database's value, or stays unloaded
MergeKeepsUnloaded == [][ IsMerge =>
    LET t == RetObj(last'.ret) src == SrcOfArg(last'.arg) k == src.k IN
    ("v" \notin src.S /\ "v" \notin st'.exp[t]) =>
        \/ (last'.ret = "obj:" \o t /\ "v" \notin st.exp[t] /\ st'.v[t] = st.v[t])
        \/ (st'.work[k] # Absent /\ st'.v[t] = st'.work[k]) ]_vars
\* load=False: no SQL, nothing flagged, nothing queued for the flush
MergeNoLoadSilent == [][ (last'.a = "Merge" /\ ~last'.arg[6]) =>
    /\ last'.sql = 0 /\ st'.work = st.work /\ st'.new = st.new /\ st'.sdel = st.sdel
    /\ DirtySet(st') \subseteq DirtySet(st)
    /\ (RetObj(last'.ret) # NoObj => ~st'.mod[RetObj(last'.ret)])
    /\ (RetObj(last'.ret) = NoObj => VX(st') = VX(st)) ]_vars
\* merging the same state again changes nothing: same instance, and after a flush the same objects and the same rows
Proj(s) == [life |-> s.life, key |-> s.key, pk |-> s.pk, v |-> s.v, exp |-> s.exp, imap |-> s.imap, work |-> s.work, new |-> s.new, sdel |-> s.sdel]
MergeIdempotent == [][ IsMerge =>
    LET t == RetObj(last'.ret) src == SrcOfArg(last'.arg) load == last'.arg[6]
        m2 == DoMerge(Clear(st'), src, load) f1 == DoFlush(Clear(st')) IN
    f1.ret = "ok" => /\ RetObj(m2.ret) = t
                     /\ LET f2 == DoFlush(Clear(m2.st)) IN f2.ret = "ok" /\ Proj(f2.st) = Proj(f1.st) ]_vars
\* an identity key includes its token: merging a token-bearing copy gives a separate instance under (k, token) exactly when the
\* row exists in the transaction's view, and leaves every instance of the token-less identities as the autoflush left it
MergeTokSeparate == [][ (last'.a = "MergeTok" /\ last'.ret \in {"tok:persistent", "tok:pending"}) =>
    LET f == DoFlush(Clear(st)) IN
    /\ f.ret = "ok" /\ Proj(st') = Proj(f.st) /\ st'.mod = f.st.mod /\ st'.cv = f.st.cv
    /\ (last'.ret = "tok:persistent" <=> st'.work[last'.arg[1]] # Absent)
    /\ last'.sql = f.st.sql + 1 ]_vars
\* ---------- C46
WrSync == ~st.wr => st.work = st.committed
StaleLoaded == \A o \in st.stale : "v" \notin st.exp[o] /\ InMapS(st, o)
\* a loaded, unmodified value that no external write has overtaken equals the row the transaction sees
FreshAgree == \A o \in Objs : (st.life[o] = "persistent" /\ InMapS(st, o) /\ ~st.mod[o] /\ "v" \notin st.exp[o] /\ ~st.needrb
                               /\ o \notin st.untr /\ o \notin st.stale) => st.work[st.key[o]] = st.v[o]
IsVal(r) == \E x \in Vals \cup {NullV} : r = Val(x)
\* reading an expired attribute returns the database value visible to the transaction; reading a loaded one returns it
\* (a pending change included) without SQL and without any effect
ReadReflectsDb == [][ (last'.a = "Read" /\ IsVal(last'.ret)) =>
    LET o == last'.arg[1] IN
    IF "v" \in st.exp[o] THEN st'.work[st'.key[o]] # Absent /\ last'.ret = Val(st'.work[st'.key[o]])
    ELSE last'.ret = Val(st.v[o]) /\ last'.sql = 0 /\ VX(st') = VX(st) ]_vars
\* after expire / expire_all / refresh / commit (expire_on_commit) / populate_existing the affected objects are not stale any
\* more and the next read gives the row of the transaction's view
Affected(o) == \/ last'.a \in {"Expire", "ExpireV", "Refresh", "RefreshV"} /\ last'.arg[1] = o
               \/ last'.a = "ExpireAll" \/ (last'.a = "Commit" /\ Eoc)
               \/ (last'.a = "QueryAll" /\ last'.arg[1] /\ InMapS(st', o) /\ st'.work[st'.key[o]] # Absent)
ExpireMakesFresh == [][ last'.ret \in {"ok"} \cup {QNames(st', K) : K \in SUBSET Keys} =>
    \A o \in Objs : (Affected(o) /\ InMapS(st', o) /\ st'.life[o] = "persistent" /\ o \notin st'.sdel /\ ~VChanged(st', o)) =>
        /\ o \notin st'.stale
        /\ LET rd == DoRead(Clear(st'), o) IN IsVal(rd.ret) => rd.ret = Val(rd.st.work[rd.st.key[o]]) ]_vars
\* a pending change on an attribute that was not expired is kept by operations on other objects / partial expiry of others
PendingKept == [][ \A o \in Objs : (VChanged(st, o) /\ InMapS(st, o) /\ st'.life[o] = "persistent" /\ ~Affected(o)
                                     /\ last'.a \in {"Expire", "ExpireV", "Refresh", "ExtSet", "ExtDel", "Read"} /\ last'.ret \in {"ok"} \cup {Val(x) : x \in Vals})
                                    => ("v" \notin st'.exp[o] /\ st'.v[o] = st.v[o]) ]_vars
\* ---------- C47: the read with autoflush == flush(), then the read
Same(a, b, pre) == a.ret = pre \o b.ret /\ V(a.st) = V(b.st) /\ a.st.sql = b.st.sql /\ a.st.ev = b.st.ev
AutoflushEquiv == [][
    /\ (last'.a = "QueryAll" => \E f \in {FThen(Clear(st), LAMBDA s : DoQuery(s, -1, last'.arg[1]))} :
            IF f.ret \in {"IntegrityError/-", "StaleDataError/-", "ObjectDeletedError/-"} THEN f.ret = last'.ret \o "/-"
            ELSE f.ret = "ok/" \o last'.ret /\ V(Post(st, "QueryAll", f.st)) = V(st') /\ f.st.sql = last'.sql /\ f.st.ev = last'.ev)
    /\ (last'.a = "QueryV" => \E f \in {FThen(Clear(st), LAMBDA s : DoQuery(s, last'.arg[1], FALSE))} :
            IF f.ret \in {"IntegrityError/-", "StaleDataError/-", "ObjectDeletedError/-"} THEN f.ret = last'.ret \o "/-"
            ELSE f.ret = "ok/" \o last'.ret /\ V(Post(st, "QueryV", f.st)) = V(st') /\ f.st.sql = last'.sql /\ f.st.ev = last'.ev)
    /\ (last'.a = "QueryC" => \E f \in {FThen(Clear(st), LAMBDA s : DoQueryC(s, last'.arg[1], last'.arg[2]))} :
            IF f.ret \in {"IntegrityError/-", "StaleDataError/-", "ObjectDeletedError/-"} THEN f.ret = last'.ret \o "/-"
            ELSE f.ret = "ok/" \o last'.ret /\ V(Post(st, "QueryC", f.st)) = V(st') /\ f.st.sql = last'.sql /\ f.st.ev = last'.ev)
    /\ ((last'.a = "Get" /\ ~st.needrb /\ (st.imap[last'.arg[1]] = NoObj \/ Expired(st, st.imap[last'.arg[1]]))) =>
            \E f \in {FThen(Clear(st), LAMBDA s : DoGet(s, last'.arg[1]))} :
            IF f.ret \in {"IntegrityError/-", "StaleDataError/-", "ObjectDeletedError/-"} THEN f.ret = last'.ret \o "/-"
            \* (the statement count may differ: after the explicit flush a just-flushed pending object answers get() from the identity map)
            ELSE f.ret = "ok/" \o last'.ret /\ V(Post(st, "Get", f.st)) = V(st') /\ f.st.sql <= last'.sql
                 /\ {<<e[1], e[2]>> : e \in f.st.ev} = {<<e[1], e[2]>> : e \in last'.ev})     \* (event multiplicity: deviation e of OrmSession.tla)
    /\ ((last'.a = "Read" /\ ~st.needrb /\ "v" \in st.exp[last'.arg[1]]) =>
            \E f \in {FThen(Clear(st), LAMBDA s : IF ReadOkS(s, last'.arg[1]) THEN DoRead(s, last'.arg[1]) ELSE R(s, "-"))} :
            IF f.ret \in {"IntegrityError/-", "StaleDataError/-", "ObjectDeletedError/-"} THEN f.ret = last'.ret \o "/-"
            ELSE f.ret = "ok/" \o last'.ret /\ V(Post(st, "Read", f.st)) = V(st') /\ f.st.sql = last'.sql /\ f.st.ev = last'.ev) ]_vars
\* the result of a query is the set of rows after every pending change: rows of the flushed view
QuerySeesFlushed == [][ (last'.a \in {"QueryAll", "QueryV"} /\ ~st.needrb) =>
    LET f == DoFlush(AutoBegin(Clear(st))) IN
    IF f.ret # "ok" THEN last'.ret = f.ret
    ELSE /\ st'.work = f.st.work
         /\ last'.ret = QNames(st', {k \in Keys : f.st.work[k] # Absent /\ (last'.a = "QueryAll" \/ f.st.work[k] = last'.arg[1])}) ]_vars
ColumnQuerySeesFlushed == [][ (last'.a = "QueryC" /\ ~st.needrb) =>
    LET f == DoFlush(AutoBegin(Clear(st))) IN
    IF f.ret # "ok" THEN last'.ret = f.ret
    ELSE st'.work = f.st.work /\ last'.ret = CResult(f.st.work, last'.arg[1], last'.arg[2]) ]_vars
\* ---------- C48
NoChangeLost == ~st.lost
\* dropping a reference never changes what the next flush writes
FlushOutcome(s) == LET f == DoFlush(Clear(s)) IN [ret |-> f.ret, work |-> f.st.work]
DropKeepsFlush == [][ last'.a = "DropRef" => FlushOutcome(st') = FlushOutcome(st) ]_vars
\* the identity map shrinks through garbage collection only by clean objects
OnlyCleanLeave == [][ \A o \in Objs : (st'.life[o] = Gone /\ st.life[o] # Gone /\ last'.a = "DropRef") =>
                             (o \notin st.sdel /\ st.life[o] # "pending" /\ (InMapS(st, o) => ~st.mod[o])) ]_vars
HeldStay == \A o \in Objs : (~st.ref[o] /\ Held(st, o)) => st.life[o] # Gone
GoneNotInSession == \A o \in Objs : st.life[o] = Gone => (~InMapS(st, o) /\ o \notin Range(st.new) /\ o \notin st.sdel)
\* ---------- C51
IsPickle == last'.a = "Pickle" /\ last'.ret # "self"
PickleCopy == [][ IsPickle =>
    LET o == last'.arg[1] c == RetObj(last'.ret) IN
    /\ c # o /\ st'.life[c] = (IF st.key[o] # NoKey THEN "detached" ELSE "transient")
    /\ st'.key[c] = st.key[o] /\ st'.exp[c] = st.exp[o] /\ st'.mod[c] = st.mod[o] /\ st'.cv[c] = st.cv[o]
    /\ ("id" \notin st.exp[o] => st'.pk[c] = st.pk[o]) /\ ("v" \notin st.exp[o] => st'.v[c] = st.v[o])
    /\ ~InMapS(st', c) /\ c \notin Range(st'.new)
    /\ \A x \in Objs \ {c} : st'.life[x] = st.life[x] /\ st'.v[x] = st.v[x] /\ st'.pk[x] = st.pk[x] /\ st'.exp[x] = st.exp[x]
    /\ st'.imap = st.imap /\ st'.work = st.work /\ last'.sql = 0 ]_vars
PickleOptValue == [][ last'.a = "PickleOpt" => (last'.ret = Val(st.committed[last'.arg[1]]) /\ V(st') = V(st) /\ last'.sql = 0) ]_vars
PickleSelf == [][ (last'.a = "Pickle" /\ last'.ret = "self") =>
    LET o == last'.arg[1] IN
    /\ [V(st') EXCEPT !.tx = <<>>] = [V(st) EXCEPT !.wasdel[o] = FALSE, !.tx = <<>>] /\ Len(st'.tx) = Len(st.tx)
    /\ \A i \in 1..Len(st.tx) : o \notin st'.tx[i].new \cup st'.tx[i].dirty \cup st'.tx[i].deleted /\ st'.tx[i].snap = st.tx[i].snap ]_vars
=============================================================================
